"""Concrete replay against the unpatched library.  This process never installs the proxies.

  python -m vf.replay --server          JSON lines on stdin -> JSON lines on stdout
  python -m vf.replay <file.json>       re-run one stored counterexample; exit 1 if it reproduces
"""
import json
import os
import sys

sys.path.insert(0, os.path.dirname(os.path.dirname(os.path.abspath(__file__))))


def main():
    from vf import harness
    if len(sys.argv) > 1 and sys.argv[1] == '--server':
        out = sys.stdout
        sys.stdout = sys.stderr   # library prints must not corrupt the protocol
        for line in sys.stdin:
            line = line.strip()
            if not line:
                continue
            req = json.loads(line)
            try:
                rep = harness.run_concrete(req['prop'], req['scenario'], req['params'], req['inputs'])
            except Exception as e:   # harness bug
                rep = {'status': 'crash', 'failed': [], 'observed': [], 'exception': repr(e)}
            out.write(json.dumps(rep) + '\n')
            out.flush()
        return 0
    rec = json.load(open(sys.argv[1]))
    rep = harness.run_concrete(rec['property'], rec['scenario'], rec['params'], rec['inputs'])
    failed = [c for c, _ in rep['failed']]
    print(json.dumps(rep, indent=1))
    if rep['status'] == 'ok' and rec['clause'] in failed:
        print('REPRODUCED property=%s clause=%s' % (rec['property'], rec['clause']))
        return 1
    print('not reproduced')
    return 0


if __name__ == '__main__':
    sys.exit(main())
