"""Obligation runner: symbolic exploration of a scenario, solver queries per claim, replay of
counterexamples against the unpatched library, known-finding classification."""
import hashlib
import json
import os
import subprocess
import sys
import time
import traceback
from fractions import Fraction

import numpy as np

VERIF = os.path.dirname(os.path.dirname(os.path.abspath(__file__)))
RTOL_C = 1e-7          # concrete replay tolerance (relative to the stated scale)


class PreconditionFailed(Exception):
    pass


class Ob(object):
    """One obligation = scenario name + JSON-able params."""

    def __init__(self, scenario, params=None, optional=False, timeout_s=600, query_ms=20000, max_paths=200000):
        self.scenario = scenario
        self.params = params or {}
        self.optional = optional
        self.timeout_s = timeout_s
        self.query_ms = query_ms
        self.max_paths = max_paths

    def key(self):
        return self.scenario + ' ' + json.dumps(self.params, sort_keys=True)


# ---------------------------------------------------------------------------------
# contexts
# ---------------------------------------------------------------------------------
class BaseCtx(object):
    symbolic = False

    def __init__(self):
        self.claims = []
        self.observed = []

    def claim(self, clause, cond, info=None):
        self.claims.append((clause, cond, info))

    def observe(self, name, value):
        self.observed.append((name, value))

    # helpers valid in both modes -------------------------------------------------
    def all(self, conds):
        from vf.engine import scalars as S
        return S.sym_and(*list(conds))

    def any(self, conds):
        from vf.engine import scalars as S
        return S.sym_or(*list(conds))


class SymCtx(BaseCtx):
    symbolic = True

    def __init__(self, eng, lib, pinned=None):
        BaseCtx.__init__(self)
        self.eng = eng
        self.lib = lib
        self.inputs = {}        # name -> SR var (scalars) in creation order
        self.int_inputs = set()
        self.fp_inputs = set()
        self.witness_hints = []   # candidate counterexamples produced by the structural rules (tried before any query)
        self.pinned = pinned
        from vf.engine import install
        self.np = install.NP

    def real(self, name, lo=-1000.0, hi=1000.0):
        from vf.engine import scalars as S
        v = S.SR.var(name)
        if name not in self.inputs:
            self.inputs[name] = (v, lo, hi)
        if lo is not None and lo >= 0 and self.pinned is None:
            (m, _c), = v.p.items()
            S.ST.nonneg_atoms.add(m[0][0])      # |x| = x structurally for inputs bounded below by 0
        add = self.eng.add_def
        if self.pinned is not None:
            add(v.z == S.zval(Fraction(float(self.pinned[name]))))
        else:
            if lo is not None:
                add(v.z >= S.zval(S.to_frac(lo)))
            if hi is not None:
                add(v.z <= S.zval(S.to_frac(hi)))
        return v

    def integer(self, name, lo, hi):
        """integer-valued input (z3 Int lifted to a real)."""
        import z3
        from vf.engine import scalars as S
        iv = z3.Int(name)
        v = S.int_atom(iv)
        if name not in self.inputs:
            self.inputs[name] = (v, lo, hi)
        self.int_inputs.add(name)
        add = self.eng.add_def
        if self.pinned is not None:
            add(iv == int(round(float(self.pinned[name]))))
        else:
            add(z3.And(iv >= int(lo), iv <= int(hi)))
        return v

    def arr(self, name, n, lo=-1000.0, hi=1000.0):
        from vf.engine.symarr import SymArr
        return SymArr([self.real('%s[%d]' % (name, i), lo, hi) for i in range(n)])

    def fparr(self, name, n):
        """IEEE-754 binary64 record (floating-point lemmas): finite values, bit-exact semantics."""
        from vf.engine.symarr import SymArr
        from vf.engine.fpscalars import SF
        out = []
        for i in range(n):
            nm = '%s[%d]' % (name, i)
            v = SF.var(nm)
            if nm not in self.inputs:
                self.inputs[nm] = (v, None, None)
            self.fp_inputs.add(nm)
            if self.pinned is not None:
                import z3
                self.eng.add_def(v.z == z3.FPVal(float(self.pinned[nm]), z3.Float64()))
            else:
                self.eng.add_def(v.finite().z if hasattr(v.finite(), 'z') else __import__('z3').BoolVal(True))
            out.append(v)
        return SymArr(out)

    def iarr(self, name, n, lo=-100, hi=100):
        """integer-dtype record (kind 'i': NumPy's integer semantics are modelled, incl. truncating stores)."""
        from vf.engine.symarr import SymArr
        return SymArr([self.integer('%s[%d]' % (name, i), lo, hi) for i in range(n)], kind='i')

    def assume(self, cond):
        self.eng.assume(cond)

    def eq(self, a, b, scale=None, rtol=1e-9):
        from vf.engine import scalars as S
        d = a - b
        if isinstance(d, S.SC):
            return S.sym_and(self.eq(d.re, 0.0, scale, rtol), self.eq(d.im, 0.0, scale, rtol))
        if not isinstance(d, S.SR):
            if scale is None:
                return abs(d) <= 1e-300
            if isinstance(scale, S.SR):
                return S.sym_abs(d) <= rtol * scale
            return abs(d) <= rtol * scale + 1e-300
        if d.is_const():
            c = abs(d.const_value())
            if scale is None:
                return c == 0
            if isinstance(scale, S.SR):
                return float(c) <= rtol * scale
            return float(c) <= rtol * scale
        if scale is None:
            return d == 0
        return S.sym_abs(d) <= rtol * scale

    def le(self, a, b, scale=None, rtol=1e-9):
        """a <= b (+ rtol*scale slack when a scale is given)."""
        if scale is None:
            return a <= b
        return a <= b + rtol * scale

    def is_maxabs(self, p, series, scale=None):
        """p is the largest absolute value of the series (exact in the real model)."""
        from vf.engine import scalars as S
        ab = [S.sym_abs(x) for x in series]
        return S.sym_and(S.sym_and(*[p >= x for x in ab]), S.sym_or(*[p == x for x in ab]))

    def poly_small(self, expr, tol):
        """claim |expr| <= tol for a polynomial over BOUNDED input variables: sufficient interval rule
        sum_m |c_m| * prod bound^e <= tol; if the rule fails the formula goes to the solver."""
        from vf.engine import scalars as S
        if isinstance(expr, S.SC):
            return S.sym_and(self.poly_small(expr.re, tol), self.poly_small(expr.im, tol))
        if not isinstance(expr, S.SR):
            return abs(expr) <= tol
        formula = S.sym_and(expr <= tol, expr >= -tol)
        if expr.q is not None:
            return formula
        bounds = {}
        for name, (v, lo, hi) in self.inputs.items():
            (m, c), = v.p.items()
            if lo is None or hi is None:
                continue
            bounds[m[0][0]] = max(abs(float(lo)), abs(float(hi)))
        tot = 0.0
        for m, c in expr.p.items():
            t = abs(float(c))
            for a, e in m:
                if a not in bounds:
                    return formula
                t *= bounds[a] ** e
            tot += t
        return True if tot <= tol else formula

    def abs_lin_le(self, expr, weights, arr, force_solver=False):
        """claim |expr| <= sum_k weights[k]*|arr[k]| for a linear form expr over the input variables arr[k].
        Decided by the complete rule for this fragment (|c_k| <= w_k for every k and no other term: necessity by
        arr = e_k, sufficiency by the triangle inequality); if the rule does not apply or fails, the formula goes
        to the solver, which then produces the counterexample."""
        from vf.engine import scalars as S
        rhs = 0.0
        for wv, x in zip(weights, arr):
            rhs = rhs + wv * S.sym_abs(x)
        if not isinstance(expr, S.SR):
            if abs(expr) == 0 and all(float(w) >= 0 for w in weights):
                return True                      # 0 <= sum of non-negative terms
            return abs(expr) <= 1e-300 if not isinstance(rhs, S.SR) else (abs(expr) <= rhs)
        formula = S.sym_abs(expr) <= rhs
        if force_solver:
            return formula
        keys = {}
        for k, x in enumerate(arr):
            if isinstance(x, S.SR) and len(x.p) == 1:
                (m, c), = x.p.items()
                if c == 1 and len(m) == 1 and m[0][1] == 1:
                    keys[m] = k
        ok = expr.q is None
        for m, c in expr.p.items():
            k = keys.get(m)
            if k is None or abs(c) > S.to_frac(weights[k]):
                ok = False
                if k is not None:
                    # necessity direction of the rule: the unit record along variable k is a witness
                    hint = {}
                    for name, (v, lo, hi) in self.inputs.items():
                        if name in self.int_inputs or name in self.fp_inputs:
                            continue
                        hint[name] = 0.0 if (lo is None or lo <= 0 <= (hi if hi is not None else 0)) else float(lo)
                    for name, (v, lo, hi) in self.inputs.items():
                        if v.p == arr[k].p:
                            hint[name] = float(hi) if hi is not None else 1.0
                    if len(self.witness_hints) < 8:
                        self.witness_hints.append(hint)
                break
        return True if ok else formula


class ConcCtx(BaseCtx):
    symbolic = False

    def __init__(self, lib, inputs):
        BaseCtx.__init__(self)
        self.lib = lib
        self.given = inputs
        self.np = np

    def real(self, name, lo=-1000.0, hi=1000.0):
        v = np.float64(self.given[name])
        if (lo is not None and v < lo) or (hi is not None and v > hi):
            raise PreconditionFailed('%s=%r outside [%r,%r]' % (name, v, lo, hi))
        return v

    def integer(self, name, lo, hi):
        v = int(round(float(self.given[name])))
        if v < lo or v > hi or abs(float(self.given[name]) - v) > 1e-9:
            raise PreconditionFailed('%s=%r not an integer in [%r,%r]' % (name, self.given[name], lo, hi))
        return v

    def arr(self, name, n, lo=-1000.0, hi=1000.0):
        return np.array([self.real('%s[%d]' % (name, i), lo, hi) for i in range(n)], dtype=float)

    def iarr(self, name, n, lo=-100, hi=100):
        return np.array([self.integer('%s[%d]' % (name, i), lo, hi) for i in range(n)], dtype=np.int64)

    def fparr(self, name, n):
        return np.array([float(self.given['%s[%d]' % (name, i)]) for i in range(n)], dtype=float)

    def assume(self, cond):
        if not cond:
            raise PreconditionFailed('assumption')

    def eq(self, a, b, scale=None, rtol=1e-9):
        d = abs(a - b)
        if not np.isfinite(d):
            return False
        if scale is None:
            return bool(d <= RTOL_C * max(abs(a), abs(b)) + 1e-300)
        return bool(d <= rtol * abs(scale) + 1e-300)

    def le(self, a, b, scale=None, rtol=1e-9):
        if scale is None:
            return bool(a <= b + RTOL_C * max(abs(a), abs(b)))
        return bool(a <= b + rtol * abs(scale))

    def is_maxabs(self, p, series, scale=None):
        m = max(abs(float(x)) for x in series)
        s = max(m, abs(float(p))) if scale is None else abs(scale)
        return bool(abs(float(p) - m) <= 1e-9 * s + 1e-300)

    def poly_small(self, expr, tol):
        return bool(abs(expr) <= tol * (1 + 1e-9) + 1e-300)

    def abs_lin_le(self, expr, weights, arr, force_solver=False):
        rhs = sum(float(w) * abs(float(x)) for w, x in zip(weights, arr))
        return bool(abs(expr) <= rhs * (1 + 1e-9) + 1e-300)


# ---------------------------------------------------------------------------------
# concrete runner (separate process, unpatched library)
# ---------------------------------------------------------------------------------
def run_concrete(prop, scenario, params, inputs):
    """Executed inside the plain process: returns dict(status, failed=[clauses], observed=[...])."""
    import importlib
    sys.path.insert(0, os.environ.get('EQSIG_SRC', '/repo'))
    import warnings
    warnings.simplefilter('ignore')
    import eqsig
    mod = importlib.import_module('vf.props.' + prop.lower())
    ctx = ConcCtx(eqsig, inputs)
    out = {'status': 'ok', 'failed': [], 'observed': [], 'exception': None}
    try:
        with np.errstate(all='ignore'):
            mod.SCENARIOS[scenario](ctx, **params)
    except PreconditionFailed as e:
        out['status'] = 'precondition'
        out['exception'] = str(e)
        return out
    except Exception as e:
        ctx.claims.append(('no_exception', False, '%s: %s' % (type(e).__name__, e)))
        out['exception'] = '%s: %s' % (type(e).__name__, e)
    for clause, cond, info in ctx.claims:
        try:
            ok = bool(cond)
        except Exception as e:
            ok = False
            info = 'claim evaluation raised %r' % (e,)
        if not ok:
            out['failed'].append([clause, str(info) if info is not None else None])
    for name, v in ctx.observed:
        out['observed'].append([name, _jsonable(v)])
    return out


def _jsonable(v):
    if isinstance(v, np.ndarray):
        if np.iscomplexobj(v):
            return [[float(x.real), float(x.imag)] for x in v.ravel()]
        return [float(x) if not isinstance(x, (bool, np.bool_)) else bool(x) for x in v.ravel()]
    if isinstance(v, (list, tuple)):
        return [_jsonable(x) for x in v]
    if isinstance(v, complex):
        return [v.real, v.imag]
    if isinstance(v, (np.floating, float)):
        return float(v)
    if isinstance(v, (np.integer, int)):
        return int(v)
    if v is None or isinstance(v, (str, bool)):
        return v
    return repr(v)


class ConcreteRunner(object):
    """Line-oriented JSON server running vf.replay in a process that never installs the proxies."""

    def __init__(self):
        self.p = None

    def _ensure(self):
        if self.p is None or self.p.poll() is not None:
            env = dict(os.environ)
            env['PYTHONPATH'] = VERIF
            self.p = subprocess.Popen([sys.executable, '-m', 'vf.replay', '--server'], stdin=subprocess.PIPE,
                                      stdout=subprocess.PIPE, cwd=VERIF, env=env, text=True)

    def run(self, prop, scenario, params, inputs):
        self._ensure()
        self.p.stdin.write(json.dumps({'prop': prop, 'scenario': scenario, 'params': params, 'inputs': inputs}) + '\n')
        self.p.stdin.flush()
        line = self.p.stdout.readline()
        if not line:
            self.p = None
            return {'status': 'crash', 'failed': [], 'observed': [], 'exception': 'runner died'}
        return json.loads(line)

    def close(self):
        if self.p is not None:
            try:
                self.p.stdin.close()
                self.p.wait(timeout=5)
            except Exception:
                self.p.kill()
            self.p = None


_RUNNER = ConcreteRunner()


# ---------------------------------------------------------------------------------
# symbolic run of one obligation (inside a worker process)
# ---------------------------------------------------------------------------------
MAX_VIOL_PER_CLAUSE = 3
MAX_VIOL_TOTAL = 6          # once an obligation has this many confirmed violations the verdict is clear: stop early
MAX_KNOWN_PER_CLAUSE = 300


def model_inputs(eng, ctx, model):
    from vf.engine.engine import frac_of
    vals = {}
    for name, (v, lo, hi) in ctx.inputs.items():
        if name in ctx.fp_inputs:
            from vf.engine.fpscalars import fp_value
            vals[name] = fp_value(model, v)
            continue
        fr = frac_of(model.eval(v.z, model_completion=True))
        vals[name] = float(fr)
    return vals


def _is_def(c):
    """definitional constraints (fresh m!/r!/txt! constants) are satisfied by construction of the evaluator."""
    s_ = c.sexpr()[:4000]
    return ('m!' in s_) or ('r!' in s_) or ('txt!' in s_) or ('q!' in s_)


def _point_models(eng, ctx, neg, tries=4):
    """cheap falsification before the full query: fix every input to a simple concrete value and ask whether the path
    condition and the negated claim hold there (all variables fixed: a fast check).  A hit is a counterexample
    candidate like any solver model (it is replayed before it counts); a miss proves nothing - the full query follows."""
    import random
    import z3
    from vf.engine import scalars as S
    if ctx.fp_inputs:
        return None
    rng = random.Random(4711)
    nice = [-2.0, -1.0, -0.5, 0.5, 1.0, 2.0, 3.0, 0.25, 1.5]
    hints = [h for h in ctx.witness_hints if set(h) == set(ctx.inputs)]
    for t in range(len(hints) + tries):
        cand = {}
        if t < len(hints):
            cand = dict(hints[t])
        for name, (v, lo, hi) in ctx.inputs.items():
            if name in cand:
                continue
            lo_ = -1000.0 if lo is None else float(lo)
            hi_ = 1000.0 if hi is None else float(hi)
            if name in ctx.int_inputs:
                cand[name] = float(rng.randint(int(lo_), int(hi_)))
                continue
            c = [x for x in nice if lo_ <= x <= hi_]
            cand[name] = rng.choice(c) if c else round(rng.uniform(lo_, hi_), 3)
        # 1. evaluate the path condition and the negated claim numerically at the point (no solver)
        from vf.engine.zeval import Evaluator, CannotEval
        try:
            ev = Evaluator(dict((str(v.z) if name not in ctx.int_inputs else str(v.z.arg(0)), cand[name])
                                for name, (v, lo, hi) in ctx.inputs.items()))
            pc_ok = all(ev.term(c) for c in eng.pc if not _is_def(c))
            if pc_ok and ev.term(neg):
                return cand
            if pc_ok:
                continue
        except (CannotEval, ZeroDivisionError, OverflowError, ValueError, z3.Z3Exception):
            pass
        # 2. otherwise ask the solver with every input fixed
        eng.solver.push()
        try:
            eng.solver.set('timeout', 2000)
            eng.solver.add(neg)
            for name, (v, lo, hi) in ctx.inputs.items():
                eng.solver.add(v.z == S.zval(Fraction(cand[name])))
            r = eng.solver.check()
        finally:
            eng.solver.pop()
            eng.solver.set('timeout', eng.timeout_ms)
        if r == z3.sat:
            return cand
    return None


def _perturbed_models(eng, ctx, neg, inputs, tries=12):
    import random
    import z3
    from vf.engine import scalars as S
    if ctx.fp_inputs:
        return []
    rng = random.Random(12345)
    out = []
    for t in range(tries):
        rel = 10.0 ** rng.choice([-9, -6, -4, -3, -2])
        cand = {}
        for name, (v, lo, hi) in ctx.inputs.items():
            x = inputs[name]
            y = x * (1.0 + rng.uniform(-rel, rel)) + rng.uniform(-rel, rel) * (1.0 if t % 2 else 0.0)
            if lo is not None:
                y = max(y, float(lo))
            if hi is not None:
                y = min(y, float(hi))
            cand[name] = y
        eng.solver.push()
        try:
            eng.solver.add(neg)
            for name, (v, lo, hi) in ctx.inputs.items():
                eng.solver.add(v.z == S.zval(Fraction(cand[name])))
            r = eng.solver.check()
        finally:
            eng.solver.pop()
        if r == z3.sat:
            out.append(cand)
            if len(out) >= 3:
                break
    return out


def run_obligation(prop, ob_dict, known):
    """Returns a result dict; never raises."""
    from vf.engine import install, engine as E, scalars as S
    import importlib
    import z3
    ob = Ob(**ob_dict)
    t0 = time.time()
    res = {'scenario': ob.scenario, 'params': ob.params, 'optional': ob.optional, 'status': 'ok',
           'claims': 0, 'structural': 0, 'unsat': 0, 'sat': 0, 'unknown': 0, 'violations': [], 'known': [],
           'unconfirmed': [], 'paths': 0, 'stats': {}, 'sample': None, 'error': None, 'clauses': {},
           'reach': 0}
    try:
        lib = install.install()
        mod = importlib.import_module('vf.props.' + prop.lower())
        fn = mod.SCENARIOS[ob.scenario]
        eng = E.Engine(timeout_ms=ob.query_ms, max_paths=ob.max_paths)
        split = ob.params.get('split')
        if split:
            d, k = split
            eng.root_prefix = [bool((k >> (d - 1 - i)) & 1) for i in range(d)]
        holder = {}
        viol_count = {}
        known_count = {}
        deadline = t0 + ob.timeout_s
        # hard wall clock: the deadline test in on_path is only reached between paths; a path that itself runs away
        # (term blow-up on a changed tree) is interrupted here.  Repeats so that a swallowed exception fires again.
        import signal as _sig

        def _alarm(signum, frame):
            raise E.Budget('obligation wall budget %ds exhausted (alarm)' % ob.timeout_s)
        try:
            _sig.signal(_sig.SIGALRM, _alarm)
            _sig.setitimer(_sig.ITIMER_REAL, ob.timeout_s + 20, 10)
        except (ValueError, OSError):
            pass
        flag = os.environ.get('VF_SETTLED_FLAG')
        # the alarm cannot interrupt a long C call (observed: Z3_model_eval doing algebraic-number arithmetic for 50 min on a
        # changed tree): a watchdog thread asks z3 to cancel whatever it is doing once the budget (or, after another
        # obligation has settled the verdict, 90 s) has passed; the cancelled call raises and the obligation ends inconclusive
        import threading

        def _watchdog():
            settled_at = None
            while True:
                time.sleep(5)
                now = time.time()
                if flag and settled_at is None and os.path.exists(flag):
                    settled_at = now
                if now > t0 + ob.timeout_s + 40 or (settled_at is not None and now > settled_at + 90):
                    try:
                        z3.main_ctx().interrupt()
                    except Exception:
                        pass
        threading.Thread(target=_watchdog, daemon=True).start()
        nonlocal_deadline = [deadline]

        def body():
            ctx = SymCtx(eng, lib)
            holder['ctx'] = ctx
            try:
                fn(ctx, **ob.params)
            except S.NonFinite as e:
                ctx.claim('finite', False, 'non-finite value: %s' % e)
            return ctx

        main_pid = int(os.environ.get('VF_MAIN_PID', '0') or 0)
        try:      # die with the fork server (which exits when the check's main process goes away)
            import ctypes
            ctypes.CDLL(None).prctl(1, 9)      # PR_SET_PDEATHSIG, SIGKILL
        except Exception:
            pass

        def on_path(r, is_exc):
            if main_pid:
                try:
                    os.kill(main_pid, 0)
                except OSError:
                    os._exit(0)          # the check that started this worker is gone (killed / timed out)
            if time.time() > deadline:
                raise E.Budget('obligation wall budget %ds exhausted' % ob.timeout_s)
            if flag and not eng.fast_fail and os.path.exists(flag):
                # another obligation of this run already has a confirmed violation: the verdict (exit 1) is settled, so
                # the remaining obligations only get short budgets
                eng.timeout_ms = min(eng.timeout_ms, 2000)
                eng.fast_fail = True
                nonlocal_deadline[0] = min(nonlocal_deadline[0], time.time() + 60)
            if time.time() > nonlocal_deadline[0]:
                raise E.Budget('stopped: a violation is already confirmed in this run')
            ctx = holder['ctx']
            if is_exc:
                if isinstance(r, PreconditionFailed):
                    return
                ctx.claims.append(('no_exception', False, '%s: %s' % (type(r).__name__, r)))
            res['paths'] += 1
            if len(res['violations']) >= MAX_VIOL_TOTAL:
                res['stopped_early'] = True
                return
            todo = []
            for clause, cond, info in ctx.claims:
                res['claims'] += 1
                cs = res['clauses'].setdefault(clause, [0, 0])
                cs[0] += 1
                if viol_count.get(clause, 0) >= MAX_VIOL_PER_CLAUSE:
                    continue
                if isinstance(cond, (bool, np.bool_)) and cond:
                    res['structural'] += 1
                    cs[1] += 1
                    continue
                if isinstance(cond, S.SB):
                    neg = z3.Not(cond.z)
                elif isinstance(cond, (bool, np.bool_)):
                    neg = z3.BoolVal(True)
                else:
                    raise S.SymUnsupported('claim %s is not boolean: %r' % (clause, type(cond)))
                todo.append((clause, cond, info, neg, cs))
            if len(todo) > 1:
                # one joint query first: pc /\ not(c1 /\ ... /\ ck); only if it is not unsat are the
                # clauses queried one by one
                joint = z3.Or(*[t[3] for t in todo])
                if _point_models(eng, ctx, joint, tries=2) is not None:
                    r_, model = 'sat', None        # some clause fails at a simple point: go straight to the single queries
                else:
                    r_, model = eng.query(joint)
                if r_ == 'unsat':
                    for clause, cond, info, neg, cs in todo:
                        res['unsat'] += 1
                        res['joint'] = res.get('joint', 0) + 1
                        cs[1] += 1
                    if res['sample'] is None:
                        res['sample'] = {'clauses': [t[0] for t in todo], 'path_decisions': len(eng.trace),
                                         'claim': str(z3.And(*[t[1].z for t in todo if isinstance(t[1], S.SB)]))[:400],
                                         'path_condition': [str(c)[:120] for c in eng.pc[:8]]}
                    todo = []
            for clause, cond, info, neg, cs in todo:
                if len(res['violations']) >= MAX_VIOL_TOTAL:
                    res['stopped_early'] = True
                    break
                pt = _point_models(eng, ctx, neg)
                if pt is not None:
                    r_, model = 'sat', None
                else:
                    r_, model = eng.query(neg)
                if r_ == 'unsat':
                    res['unsat'] += 1
                    cs[1] += 1
                    if res['sample'] is None and isinstance(cond, S.SB):
                        res['sample'] = {'clause': clause, 'path_decisions': len(eng.trace),
                                         'claim': str(cond.z)[:400],
                                         'path_condition': [str(c)[:120] for c in eng.pc[:8]]}
                elif r_ == 'sat':
                    res['sat'] += 1
                    inputs = pt if pt is not None else model_inputs(eng, ctx, model)
                    rep = _RUNNER.run(prop, ob.scenario, ob.params, inputs)
                    failed = [c for c, _ in rep['failed']]
                    if clause == 'finite' and rep['status'] == 'ok' and clause not in failed and failed:
                        # the engine met a non-finite value (division by zero, NaN weight, ...); in floats the run goes on
                        # with inf/nan and fails whichever clause notices it: that IS the reproduction
                        record_clause = failed[0]
                        failed = failed + ['finite']
                    if not (rep['status'] == 'ok' and clause in failed) and pt is not None:
                        # the cheap point did not reproduce: fall back to the full query
                        r2_, model = eng.query(neg)
                        if r2_ != 'sat':
                            if r2_ == 'unsat':
                                res['unsat'] += 1
                                res['sat'] -= 1
                                cs[1] += 1
                            else:
                                res['unknown'] += 1
                                res['sat'] -= 1
                            continue
                        inputs = model_inputs(eng, ctx, model)
                        rep = _RUNNER.run(prop, ob.scenario, ob.params, inputs)
                        failed = [c for c, _ in rep['failed']]
                    if not (rep['status'] == 'ok' and clause in failed):
                        # the model may sit exactly on a decision boundary where float rounding differs from real
                        # arithmetic: look for an interior point of the violating region near it
                        alt = _perturbed_models(eng, ctx, neg, inputs)
                        for inp2 in alt:
                            rep2 = _RUNNER.run(prop, ob.scenario, ob.params, inp2)
                            if rep2['status'] == 'ok' and clause in [c for c, _ in rep2['failed']]:
                                inputs, rep, failed = inp2, rep2, [c for c, _ in rep2['failed']]
                                break
                    record = {'property': prop, 'scenario': ob.scenario, 'params': ob.params, 'clause': clause,
                              'inputs': inputs, 'info': str(info) if info is not None else None,
                              'replay': rep}
                    if rep['status'] == 'ok' and clause in failed:
                        k = known.match(prop, ob.scenario, clause, ob.params, inputs, rep.get('observed')) if known else None
                        if k is not None:
                            if k not in [x['finding'] for x in res['known']]:
                                res['known'].append({'finding': k, 'record': record})
                            known_count[clause] = known_count.get(clause, 0) + 1
                            if known_count[clause] >= MAX_KNOWN_PER_CLAUSE:
                                viol_count[clause] = MAX_VIOL_PER_CLAUSE
                        else:
                            res['violations'].append(record)
                            viol_count[clause] = viol_count.get(clause, 0) + 1
                            # the verdict of this obligation is settled: do not spend long solver budgets on the rest
                            eng.timeout_ms = min(eng.timeout_ms, 2000)
                            eng.fast_fail = True
                    else:
                        res['unconfirmed'].append(record)
                        viol_count[clause] = viol_count.get(clause, 0) + 1
                else:
                    res['unknown'] += 1

        eng.explore(body, on_path)
        # reachability twin: at least one completed path whose path condition is satisfiable
        res['reach'] = res['paths']
        if res['paths'] == 0 and not split:
            res['status'] = 'vacuous'
        res['stats'] = eng.stats.as_dict()
    except Exception as e:   # SymUnsupported, Budget, engine bugs
        from vf.engine.engine import Budget
        res['status'] = 'inconclusive' if isinstance(e, Budget) else 'error'
        res['error'] = '%s: %s' % (type(e).__name__, e)
        res['trace'] = traceback.format_exc()[-1500:]
        try:
            res['stats'] = eng.stats.as_dict()
        except Exception:
            pass
    if res['unknown'] and res['status'] == 'ok':
        res['status'] = 'inconclusive'
        res['error'] = '%d solver queries returned unknown' % res['unknown']
    confirmed_clauses = set(v['clause'] for v in res['violations']) | set(k['record']['clause'] for k in res['known'])
    res['unconfirmed'] = [u for u in res['unconfirmed'] if u['clause'] not in confirmed_clauses]
    if res['unconfirmed'] and res['status'] == 'ok':
        res['status'] = 'error'
        res['error'] = 'solver counterexample did not reproduce on the real code'
    res['wall_s'] = round(time.time() - t0, 3)
    return res


def _worker(args):
    prop, ob_dict = args
    from vf import known as K
    kn = K.load()
    try:
        return run_obligation(prop, ob_dict, kn)
    finally:
        pass


def selftest_obligation(prop, ob_dict, vectors):
    """Differential validation: run the scenario symbolically with inputs pinned to each
    concrete vector (single forced path) and compare every observable and every claim
    outcome with the plain-NumPy run of the unpatched library."""
    from vf.engine import install, engine as E, scalars as S
    from vf.engine.engine import frac_of
    import importlib
    import z3
    ob = Ob(**ob_dict)
    lib = install.install()
    mod = importlib.import_module('vf.props.' + prop.lower())
    fn = mod.SCENARIOS[ob.scenario]
    out = {'cases': 0, 'mismatches': []}
    for vec in vectors:
        eng = E.Engine(timeout_ms=ob.query_ms, max_paths=50)
        holder = {}
        results = []

        def body():
            ctx = SymCtx(eng, lib, pinned=vec)
            holder['ctx'] = ctx
            fn(ctx, **ob.params)
            return ctx

        def on_path(r, is_exc):
            ctx = holder['ctx']
            obs = []
            if not eng._ensure_model():
                raise S.SymUnsupported('no model in pinned mode')
            m = eng.model
            for name, v in ctx.observed:
                obs.append([name, _eval_obs(v, m)])
            failed = []
            if is_exc:
                failed.append('no_exception')
            for clause, cond, info in ctx.claims:
                if isinstance(cond, S.SB):
                    ok = z3.is_true(m.eval(cond.z, model_completion=True))
                else:
                    ok = bool(cond)
                if not ok:
                    failed.append(clause)
            results.append((obs, failed))

        try:
            eng.explore(body, on_path)
        except Exception as e:
            out['mismatches'].append({'vector': vec, 'error': '%s: %s' % (type(e).__name__, e),
                                      'trace': traceback.format_exc()[-800:]})
            continue
        rep = _RUNNER.run(prop, ob.scenario, ob.params, vec)
        out['cases'] += 1
        if rep['status'] == 'precondition':
            if results:
                out['mismatches'].append({'vector': vec, 'error': 'concrete run rejects precondition, symbolic has a path'})
            continue
        if len(results) != 1:
            out['mismatches'].append({'vector': vec, 'error': 'pinned run produced %d paths' % len(results)})
            continue
        obs, failed = results[0]
        cf = sorted(set(c for c, _ in rep['failed']))
        if sorted(set(failed)) != cf:
            out['mismatches'].append({'vector': vec, 'error': 'claim outcomes differ', 'sym': sorted(set(failed)), 'conc': cf})
            continue
        if not _obs_close(obs, rep['observed']):
            out['mismatches'].append({'vector': vec, 'error': 'observables differ', 'sym': obs, 'conc': rep['observed']})
    return out


def _eval_obs(v, m):
    from vf.engine import scalars as S
    from vf.engine.engine import frac_of
    if isinstance(v, S.SR):
        return float(frac_of(m.eval(v.z, model_completion=True)))
    if isinstance(v, S.SC):
        return [_eval_obs(v.re, m), _eval_obs(v.im, m)]
    if isinstance(v, S.SB):
        import z3
        return bool(z3.is_true(m.eval(v.z, model_completion=True)))
    if isinstance(v, np.ndarray):
        return [_eval_obs(x, m) for x in v.ravel().tolist()] if v.dtype == object else _jsonable(v)
    if isinstance(v, (list, tuple)):
        return [_eval_obs(x, m) for x in v]
    if isinstance(v, complex):
        return [v.real, v.imag]
    return _jsonable(v)


def _obs_close(a, b, rtol=1e-8):
    if isinstance(a, (list, tuple)) and isinstance(b, (list, tuple)):
        if len(a) != len(b):
            return False
        flat_a = _flat(a)
        flat_b = _flat(b)
        if len(flat_a) != len(flat_b):
            return False
        nums = [abs(x) for x in flat_b if isinstance(x, (int, float)) and not isinstance(x, bool)]
        scale = max(nums) if nums else 1.0
        for x, y in zip(flat_a, flat_b):
            if isinstance(x, (int, float)) and isinstance(y, (int, float)) and not isinstance(x, bool):
                # relative to the largest observed magnitude, with an absolute floor (values that are zero up to
                # rounding, e.g. a sinusoid sampled at a node, differ by 1e-14 between the two evaluation orders)
                if not abs(x - y) <= rtol * max(scale, 1e-300) + 1e-9:
                    return False
            elif x != y:
                return False
        return True
    return a == b


def _flat(x):
    out = []
    for e in x:
        if isinstance(e, (list, tuple)):
            out.extend(_flat(e))
        else:
            out.append(e)
    return out
