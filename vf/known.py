"""Known findings: committed list of genuine defects that are recorded rather than repaired.
Read-only at run time.  An entry matches a counterexample only if property, scenario, clause
agree and the entry's class predicate holds on the concrete counterexample."""
import json
import os

PATH = os.path.join(os.path.dirname(os.path.dirname(os.path.abspath(__file__))), 'known_findings.json')

PREDICATES = {}


def predicate(name):
    def deco(f):
        PREDICATES[name] = f
        return f
    return deco


@predicate('always')
def _always(params, inputs):
    return True


class Known(object):
    def __init__(self, data):
        self.open = [f for f in data.get('findings', []) if f.get('status') == 'open']
        self.fixed = data.get('fixed', [])

    def match(self, prop, scenario, clause, params, inputs):
        for f in self.open:
            if f['property'] != prop or f['clause'] != clause:
                continue
            if f.get('scenario') not in (None, scenario):
                continue
            want = f.get('params') or {}
            if any(params.get(k) != v for k, v in want.items()):
                continue
            p = PREDICATES[f.get('predicate', 'always')]
            try:
                if p(params, inputs):
                    return f['id']
            except Exception:
                continue
        return None

    def by_id(self, fid):
        for f in self.open:
            if f['id'] == fid:
                return f
        return None


def load():
    if not os.path.exists(PATH):
        return Known({})
    return Known(json.load(open(PATH)))
