"""Known findings: committed list of genuine defects that are recorded rather than repaired.
Read-only at run time.  An entry matches a counterexample only if property, scenario, clause
agree and the entry's class predicate holds on the concrete counterexample."""
import json
import os

PATH = os.path.join(os.path.dirname(os.path.dirname(os.path.abspath(__file__))), 'known_findings.json')

PREDICATES = {}


def predicate(name):
    def deco(f):
        PREDICATES[name] = f
        return f
    return deco


@predicate('always')
def _always(params, inputs, observed):
    return True


class Known(object):
    def __init__(self, data):
        self.open = [f for f in data.get('findings', []) if f.get('status') == 'open']
        self.fixed = data.get('fixed', [])

    def match(self, prop, scenario, clause, params, inputs, observed=None):
        for f in self.open:
            if f['property'] != prop or f['clause'] != clause:
                continue
            if f.get('scenario') not in (None, scenario):
                continue
            want = f.get('params') or {}
            if any(params.get(k) != v for k, v in want.items()):
                continue
            p = PREDICATES[f.get('predicate', 'always')]
            try:
                if p(params, inputs, dict((k, v) for k, v in (observed or []))):
                    return f['id']
            except Exception:
                continue
        return None

    def by_id(self, fid):
        for f in self.open:
            if f['id'] == fid:
                return f
        return None


def load():
    if not os.path.exists(PATH):
        return Known({})
    return Known(json.load(open(PATH)))


# ---------------------------------------------------------------------------------
def _series(inputs, name='x'):
    n = 0
    while '%s[%d]' % (name, n) in inputs:
        n += 1
    return [float(inputs['%s[%d]' % (name, i)]) for i in range(n)]


def _turning_points(x):
    """0, every first-of-plateau local extremum, first sample of the final constant run."""
    n = len(x)
    keep = [0] + [i for i in range(1, n) if x[i] != x[i - 1]]
    c = [x[i] for i in keep]
    out = [0]
    for k in range(1, len(c) - 1):
        if (c[k] - c[k - 1]) * (c[k + 1] - c[k]) < 0:
            out.append(keep[k])
    if len(c) > 1:
        out.append(keep[-1])
    return out


def _ref_switched_tol(x, tol):
    """The documented tolerance rule: a sign switch is recognised at the first turning point that goes
    tol past zero; each recognised half cycle reports its largest |turning point| (first occurrence)."""
    tp = _turning_points(x)
    vals = [x[i] for i in tp]
    last = vals[0]
    out = []
    cur = [(vals[0], tp[0])]
    for k in range(1, len(vals)):
        sgn = (last > 0) - (last < 0)
        if (vals[k] + tol * sgn) * last <= 0:
            best = max(range(len(cur)), key=lambda j: (abs(cur[j][0]), -j))
            out.append(cur[best][1])
            last = vals[k]
            cur = []
        cur.append((vals[k], tp[k]))
    if cur:
        best = max(range(len(cur)), key=lambda j: (abs(cur[j][0]), -j))
        out.append(cur[best][1])
    return sorted(set(out))


@predicate('tol_recognises_switch_late')
def _tol_late(params, inputs, observed):
    """tol > 0; some excursion has a sample with |x| < tol before a sample with |x| >= tol (the switch into it
    is recognised part-way through), and the library's tol output is exactly what the documented tolerance
    rule gives - i.e. the non-subsequence is inherent to the rule, not some other malfunction."""
    x = _series(inputs)
    tol = float(inputs.get('tol', 0.0))
    if tol <= 0 or 'sp_tol' not in observed:
        return False
    late = False
    i = 0
    n = len(x)
    while i < n:
        if x[i] == 0:
            i += 1
            continue
        j = i
        while j + 1 < n and x[j + 1] * x[i] > 0:
            j += 1
        small_seen = False
        for k in range(i, j + 1):
            if abs(x[k]) < tol:
                small_seen = True
            elif small_seen:
                late = True
        i = j + 1
    return late and [int(v) for v in observed['sp_tol']] == _ref_switched_tol(x, tol)


@predicate('trapezoid_measure_and_nonzero_first_sample')
def _trap_nonzero_start(params, inputs, observed):
    """trapezoid-based cumulative measure (Arias, CAV) and a record whose first sample is not zero: the prepended
    zero creates a new non-empty trapezoid panel, so the cumulative curve is not a pure shift."""
    return params.get('kind') in ('arias', 'cav') and params.get('k', 0) > 0 and float(inputs['a[0]']) != 0.0


@predicate('c01_closed_form_cancellation_at_small_w_dt')
def _c01_cancel(params, inputs, observed):
    """w*dt <= 1.3e-3 (T/dt >= 5000) and the displacement error stays within 4x the property tolerance relative to
    sum_k peak_k*|a_k|: the class of rounding amplified by cancellation in the Nigam-Jennings closed forms
    (b_11, b_12 lose ~(w*dt)^-3 * eps relative accuracy), not a wrong formula (those give errors >= 1e-3)."""
    import math
    from fractions import Fraction
    from vf.oracles import sdof_ref
    from vf.props import c01
    if params.get('ratio', 0) < 5000 or 'u' not in observed:
        return False
    n = params['n']
    dt = params['dt']
    T = params['ratio'] * dt
    xi = params['xi']
    a = [float(inputs['a[%d]' % i]) for i in range(n)]
    gu, gv, w = sdof_ref.impulse_table(T, xi, dt, n)
    tol = c01._tol(T, dt, n)
    wf = float(w)
    fu = 1e-2 * min(1.0 / wf ** 2, (n * dt) ** 2 / 2)
    pu = [max(max(abs(float(gu[i][k])) for i in range(n)), fu) for k in range(n)]
    scale = sum(p * abs(x) for p, x in zip(pu, a))
    u = observed['u']
    err = max(abs(u[i] - float(sum(gu[i][k] * Fraction(a[k]) for k in range(n)))) for i in range(n))
    return err <= 4 * tol * scale


@predicate('c03_energy_sum_matches_definition')
def _c03_energy(params, inputs, observed):
    """the library value IS the defining rectangle-rule sum  sum_i a_i * v_i * dt  over the reference response (so the
    negative value comes from the definition, which is not sign-definite when the record does not end at rest / the
    step under-resolves the oscillator), not from a malfunction of the summation."""
    from fractions import Fraction
    from vf.oracles import sdof_ref
    if 'ein' not in observed:
        return False
    n = params['n']
    dt = params['dt']
    xi = params['xi']
    a = [float(inputs['a[%d]' % i]) for i in range(n)]
    ok = False
    for p, T in enumerate(params['periods']):
        T = float(T)
        if T == 0:
            continue
        gu, gv, w = sdof_ref.impulse_table(T, xi, dt, n)
        v = [float(sum(gv[i][k] * Fraction(a[k]) for k in range(n))) for i in range(n)]
        want = sum(a[i] * v[i] * dt for i in range(n))
        scale = sum(abs(a[i] * v[i]) * dt for i in range(n)) + 1e-300
        if abs(observed['ein'][p] - want) > 1e-5 * scale:
            return False
        if observed['ein'][p] < 0:
            ok = True
    return ok


@predicate('c14_even_floor_after_decimation')
def _c14_even(params, inputs, observed):
    """decimation (dt < target) with even=True: the output length is exactly the documented 2*int(factor*L/2), i.e.
    the loss of duration comes from flooring to an even length after decimating, nothing else."""
    import math
    if not params.get('even') or 'out' not in observed:
        return False
    dt = float(inputs['dt'])
    target = float(inputs['target'])
    L = params['L']
    f = dt / target
    if f >= 1:
        return False
    k = math.floor(1 / f)
    return len(observed['out']) == 2 * int((L / k) / 2) and abs(observed['new_dt'] - dt * k) <= 1e-12 * dt * k


@predicate('c20_int_truncated_step_error')
def _c20_int_trunc(params, inputs, observed):
    """integer-dtype series and the library result is exactly the truncation toward zero of the correct errors (so
    the only thing wrong is the integer output buffer)."""
    import math
    if params.get('kind') != 'i' or 'err' not in observed:
        return False
    n = params['n']
    p = params['p']
    v = [float(inputs['v[%d]' % i]) for i in range(n)]

    def dev(xs):
        m = sum(xs) / len(xs)
        return sum(abs(x - m) ** p for x in xs)
    want = [dev(v[:i + 1]) + dev(v[i + 1:]) for i in range(n - 1)] + [dev(v)]
    got = observed['err']
    return len(got) == n and all(abs(g - math.trunc(w + (1e-9 if w >= 0 else -1e-9))) < 1e-6 for g, w in zip(got, want))
