"""Imported by the fork server (preload) and by every pool worker (initializer): die with the parent process, so that a
check whose main process is killed outright (SIGKILL, OOM) leaves no fork server or idle worker behind holding its pipes."""
import ctypes
import signal


def arm():
    try:
        ctypes.CDLL(None).prctl(1, int(signal.SIGKILL))      # PR_SET_PDEATHSIG
    except Exception:
        pass


arm()
