"""C15 - Stockwell transform: definition, Fourier marginal and exact inverse."""
import math
from fractions import Fraction
from vf.harness import Ob
from vf.engine import scalars as S
from vf.engine.models import twiddle

PROP = 'C15'

META = {
    'functions_encoded': ['eqsig.stockwell.transform', 'transform_w_scipy_fft', 'generate_gaussian (concrete)', 'itransform',
                          'get_max_stockwell_freq', 'get_max_tifq_vals_freq', 'scipy.linalg.toeplitz (real code on object arrays)'],
    'stubs': ['np.fft.fft / ifft and scipy.fftpack.fft / ifft: the DFT definition (twiddles exact to 2**-90); '
              'complex scalars are pairs of reals'],
    'bounds': {'quick': 'record length n in {4,5,6,8,9} fully symbolic; trace clause: N in {16, 17(odd, truncated)}, on-grid '
                        'harmonics 2..6 with symbolic amplitude pair (A,B)',
               'thorough': 'n up to 16 (odd and even); trace clause N=24'},
    'outside': ['n beyond the bound (the property mentions <= 1024; only the bounded claim is made)', 'pocketfft itself',
                'the C-level overwrite_x side effect of scipy.fftpack.fft'],
    'assumptions': [],
}


def _X(vals, N):
    out = []
    for k in range(N):
        re = 0.0
        im = 0.0
        for m, x in enumerate(vals[:N]):
            c, s = twiddle(-k * m, N)
            if c != 0:
                re = re + x * c
            if s != 0:
                im = im + x * s
        out.append((re, im))
    return out


def _mulc(z, c, s):
    """(re, im) * (c + i s) with exact Fraction factors."""
    re, im = z
    return (re * c - im * s, re * s + im * c)


def _oracle(vals, N):
    """conj( sum_m X[m+k] exp(-2 pi^2 m^2/k^2) exp(2 pi i m j/N) ) / N, rows k = N/2 .. 1."""
    nd2 = N // 2
    X = _X(vals, N)
    rows = []
    for r in range(nd2):
        k = nd2 - r
        row = []
        for j in range(N):
            re = 0.0
            im = 0.0
            for m in range(-nd2, nd2):
                g = Fraction(math.exp(-2 * math.pi ** 2 * m * m / float(k * k)))
                if g == 0:
                    continue
                c, s = twiddle(m * j, N)
                zr, zi = _mulc(X[(m + k) % N], c * g, s * g)
                re = re + zr
                im = im + zi
            row.append((re * Fraction(1, N) if S.is_sym(re) else re / N, -(im * Fraction(1, N)) if S.is_sym(im) else -im / N))
        rows.append(row)
    return rows, X


def _parts(z):
    if isinstance(z, S.SC):
        return z.re, z.im
    if S.is_sym(z):
        return z, 0.0
    return z.real, z.imag


def definition(ctx, n):
    st = ctx.lib.stockwell
    a = ctx.arr('a', n, -100.0, 100.0)
    vals = list(a)
    nd2 = n // 2
    N = 2 * nd2
    keep = [v + 0.0 for v in vals]
    Sm = st.transform(a)
    ctx.claim('input_not_modified', S.sym_and(*[ctx.eq(a[i], keep[i]) for i in range(n)]))
    ctx.claim('shape_half_n_by_n', tuple(Sm.shape) == (nd2, N), tuple(Sm.shape))
    if tuple(Sm.shape) != (nd2, N):
        return
    ctx.observe('S00', list(_parts(Sm[0][0])))
    want, X = _oracle(vals, N)
    tolw = [1e-10] * n
    good = []
    for r in range(nd2):
        for j in range(N):
            re, im = _parts(Sm[r][j])
            good.append(ctx.abs_lin_le(re - want[r][j][0], tolw, vals))
            good.append(ctx.abs_lin_le(im - want[r][j][1], tolw, vals))
    ctx.claim('is_conjugate_discrete_s_transform_rows_nyquist_to_first_harmonic', S.sym_and(*good))
    S2 = st.transform_w_scipy_fft(a)
    good = []
    ok2 = tuple(S2.shape) == (nd2, N)
    if ok2:
        for r in range(nd2):
            for j in range(N):
                r1, i1 = _parts(Sm[r][j])
                r2, i2 = _parts(S2[r][j])
                good.append(ctx.abs_lin_le(r1 - r2, tolw, vals))
                good.append(ctx.abs_lin_le(i1 - i2, tolw, vals))
    ctx.claim('both_implementations_agree', S.sym_and(ok2, *good))
    # Fourier marginal: row sums are the conjugate Fourier coefficients
    good = []
    for r in range(nd2):
        k = nd2 - r
        sre = 0.0
        sim = 0.0
        for j in range(N):
            re, im = _parts(Sm[r][j])
            sre = sre + re
            sim = sim + im
        good.append(ctx.abs_lin_le(sre - X[k][0], tolw, vals))
        good.append(ctx.abs_lin_le(sim + X[k][1], tolw, vals))
    ctx.claim('row_sums_are_conjugate_fourier_coefficients', S.sym_and(*good))
    # inverse
    inv = st.itransform(Sm)
    ctx.claim('inverse_length', len(inv) == N, len(inv))
    mean = 0.0
    nyq = 0.0
    for m in range(N):
        mean = mean + vals[m]
        nyq = nyq + (vals[m] if m % 2 == 0 else -vals[m])
    good = []
    for m in range(min(len(inv), N)):
        want_m = vals[m] - mean * Fraction(1, N) - (nyq * Fraction(1, N) if m % 2 == 0 else -(nyq * Fraction(1, N))) \
            if ctx.symbolic else vals[m] - mean / N - (nyq / N if m % 2 == 0 else -nyq / N)
        good.append(ctx.abs_lin_le(inv[m] - want_m, tolw, vals))
    ctx.claim('inverse_recovers_record_minus_mean_and_nyquist', S.sym_and(*good))


def linearity(ctx, n):
    st = ctx.lib.stockwell
    a = ctx.arr('a', n, -30.0, 30.0)
    b = ctx.arr('b', n, -30.0, 30.0)
    al = ctx.real('alpha', -30.0, 30.0)
    Sa, Sb, Sc = st.transform(a), st.transform(b), st.transform(al * a + b)
    good = []
    for r in range(Sa.shape[0]):
        for j in range(Sa.shape[1]):
            good.append(ctx.eq(Sc[r][j], al * Sa[r][j] + Sb[r][j], 1e6))
    ctx.claim('linear', S.sym_and(*good))


def trace(ctx, L, k0, via='object'):
    """stationary on-grid sinusoid: dominant-frequency trace over the middle half equals its frequency."""
    lib = ctx.lib
    dt = 0.02
    N = 2 * (L // 2)
    A = ctx.real('A', -10.0, 10.0)
    B = ctx.real('B', -10.0, 10.0)
    ctx.assume(S.sym_or(S.sym_abs(A) >= 0.01, S.sym_abs(B) >= 0.01))
    x = ctx.np.array([A * math.cos(2 * math.pi * k0 * j / N) + B * math.sin(2 * math.pi * k0 * j / N) for j in range(L)])
    asig = lib.AccSignal(x, dt)
    if via == 'object':
        mf = lib.stockwell.get_max_stockwell_freq(asig)
    else:
        mf = lib.stockwell.get_max_tifq_vals_freq(lib.stockwell.transform(x), dt)
    ctx.observe('mf', mf)
    f0 = k0 / (N * dt)
    mid = range(N // 4, 3 * N // 4)
    ctx.claim('trace_length', len(mf) == N, len(mf))
    ctx.claim('dominant_frequency_is_the_sinusoid_frequency_over_middle_half',
              all(abs(float(mf[j]) - f0) <= 1e-9 * f0 for j in mid), [float(mf[j]) for j in mid][:4] + [f0])


SCENARIOS = {'definition': definition, 'linearity': linearity, 'trace': trace}
SELFTEST_PER_SCENARIO = 3


def obligations(tier, seed):
    q = tier == 'quick'
    # every residue of n mod 4 (the truncation to even length must floor for both kinds of odd n)
    for n in ((2, 3, 4, 5, 6, 7, 8, 9) if q else (2, 3, 4, 5, 6, 7, 8, 9, 11, 12, 13, 15, 16)):
        yield Ob('definition', {'n': n}, query_ms=60000, timeout_s=1500)
    for n in ((4, 7) if q else (4, 7, 12)):
        yield Ob('linearity', {'n': n}, query_ms=60000, timeout_s=1500)
    for L in ((16, 17) if q else (16, 17, 24)):
        N = 2 * (L // 2)
        for k0 in range(2, int(0.75 * N / 2) + 1):
            yield Ob('trace', {'L': L, 'k0': k0}, query_ms=60000, timeout_s=1500)
    yield Ob('trace', {'L': 16, 'k0': 3, 'via': 'array'}, query_ms=60000, timeout_s=1500)
