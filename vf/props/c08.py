"""C08 - Velocity, displacement are cumulative trapezoid integrals; peaks are max abs."""
from vf.harness import Ob
from vf.engine import scalars as S

PROP = 'C08'

META = {
    'functions_encoded': ['eqsig.displacements.calc_velo_and_disp_from_accel_arr (trap True/False)',
                          'velocity_and_displacement_from_acceleration',
                          'AccSignal.generate_displacement_and_velocity_series / .velocity / .displacement / .pga / .pgv / .pgd',
                          'eqsig.im.calc_peak', 'eqsig.im.calculate_peak',
                          'scipy.integrate.cumulative_trapezoid (real SciPy code, executed symbolically)'],
    'stubs': [],
    'bounds': {'quick': 'n in 2..10, record values in [-1000,1000], dt symbolic in [1e-4,10] (identities, linearity, '
                        'closed forms); calc_peak on a free series x in R^n, n<=12, alpha in {-2.5,0.3}; pga/pgv/pgd shown to be calc_peak of the values/velocity/displacement terms (identical terms, n<=10, dt in {0.01,0.5})',
               'thorough': 'n in 2..24 for the identities; peaks n<=10'},
    'outside': ['rounding on the record', 'n beyond the bound'],
    'assumptions': ["reading of 'exact for constant and linearly varying acceleration': velocity is exact for both, "
                    "displacement is exact for constant acceleration (the trapezoid of a quadratic velocity is not "
                    "exact by the property's own increment definition)"],
}


def _vd(ctx, a, dt, trap, level):
    lib = ctx.lib
    if level == 'array':
        return lib.displacements.calc_velo_and_disp_from_accel_arr(a, dt, trap=trap)
    if level == 'alias':
        return lib.displacements.velocity_and_displacement_from_acceleration(a, dt, trap=trap)
    asig = lib.AccSignal(a, dt)
    if level == 'object_after_other_rule':
        # the series of the OTHER rule are already cached (read, or generated explicitly) when this rule is requested
        if trap:
            asig.generate_displacement_and_velocity_series(trap=False)
            _ = asig.pgv
            asig.generate_displacement_and_velocity_series(trap=True)
        else:
            _ = asig.velocity, asig.pgd
            asig.generate_displacement_and_velocity_series(trap=False)
        return asig.velocity, asig.displacement
    if level == 'object_default_after_rect':
        asig.generate_displacement_and_velocity_series(trap=False)
        asig.generate_displacement_and_velocity_series()
        return asig.velocity, asig.displacement
    if not trap:
        asig.generate_displacement_and_velocity_series(trap=False)
    return asig.velocity, asig.displacement


def increments(ctx, n, trap=True, level='array', kind='f'):
    a = ctx.iarr('a', n, -1000, 1000) if kind == 'i' else ctx.arr('a', n)
    dt = ctx.real('dt', 1e-4, 10.0)
    v, d = _vd(ctx, a, dt, trap, level)
    ctx.observe('v', v)
    ctx.observe('d', d)
    ctx.claim('lengths', len(v) == n and len(d) == n, (len(v), len(d)))
    if len(v) != n or len(d) != n:
        return
    sc = 1000.0 * 10.0 * n
    ctx.claim('start_at_zero', S.sym_and(ctx.eq(v[0], 0.0, sc), ctx.eq(d[0], 0.0, sc)))
    if trap:
        ctx.claim('velocity_increment', S.sym_and(*[ctx.eq(v[i] - v[i - 1], dt * (a[i] + a[i - 1]) / 2, sc)
                                                    for i in range(1, n)]))
        ctx.claim('displacement_increment', S.sym_and(*[ctx.eq(d[i] - d[i - 1], dt * (v[i] + v[i - 1]) / 2, sc * 10 * n)
                                                        for i in range(1, n)]))
    else:
        left = S.sym_and(*[ctx.eq(v[i] - v[i - 1], dt * a[i - 1], sc) for i in range(1, n)])
        right = S.sym_and(*[ctx.eq(v[i] - v[i - 1], dt * a[i], sc) for i in range(1, n)])
        ctx.claim('velocity_increment_rect', S.sym_or(left, right))
        left = S.sym_and(*[ctx.eq(d[i] - d[i - 1], dt * v[i - 1], sc * 10 * n) for i in range(1, n)])
        right = S.sym_and(*[ctx.eq(d[i] - d[i - 1], dt * v[i], sc * 10 * n) for i in range(1, n)])
        ctx.claim('displacement_increment_rect', S.sym_or(left, right))


def linearity(ctx, n, trap=True):
    a = ctx.arr('a', n, -30.0, 30.0)
    b = ctx.arr('b', n, -30.0, 30.0)
    al = ctx.real('alpha', -30.0, 30.0)
    be = ctx.real('beta', -30.0, 30.0)
    dt = ctx.real('dt', 1e-4, 10.0)
    f = ctx.lib.displacements.calc_velo_and_disp_from_accel_arr
    va, da = f(a, dt, trap=trap)
    vb, db = f(b, dt, trap=trap)
    vc, dc = f(al * a + be * b, dt, trap=trap)
    sc = 2 * 30.0 * 30.0 * 10.0 * n
    ctx.claim('velocity_linear', S.sym_and(*[ctx.eq(vc[i], al * va[i] + be * vb[i], sc) for i in range(n)]))
    ctx.claim('displacement_linear', S.sym_and(*[ctx.eq(dc[i], al * da[i] + be * db[i], sc * 10 * n) for i in range(n)]))


def closed_forms(ctx, n):
    c0 = ctx.real('c0', -100.0, 100.0)
    c1 = ctx.real('c1', -100.0, 100.0)
    dt = ctx.real('dt', 1e-4, 10.0)
    f = ctx.lib.displacements.calc_velo_and_disp_from_accel_arr
    t = [i * dt for i in range(n)]
    a = ctx.np.array([c0 + c1 * t[i] for i in range(n)])
    v, d = f(a, dt)
    sc = 100.0 * (10.0 * n) ** 3
    ctx.claim('velocity_exact_linear_acc', S.sym_and(*[ctx.eq(v[i], c0 * t[i] + c1 * t[i] * t[i] / 2, sc)
                                                       for i in range(n)]))
    a0 = ctx.np.array([c0 + 0.0 * t[i] for i in range(n)])
    v0, d0 = f(a0, dt)
    ctx.claim('displacement_exact_const_acc', S.sym_and(*[ctx.eq(d0[i], c0 * t[i] * t[i] / 2, sc) for i in range(n)]))


def _unused_is_maxabs(p, series):
    ab = [S.sym_abs(x) for x in series]
    return S.sym_and(S.sym_and(*[p >= x for x in ab]), S.sym_or(*[p == x for x in ab]))


def calc_peak_free(ctx, n, alpha=-2.5):
    """calc_peak on an arbitrary series x in R^n (pga/pgv/pgd are calc_peak of their series: object_peaks)."""
    x = ctx.arr('x', n)
    im = ctx.lib.im
    p = im.calc_peak(x)
    ctx.observe('peak', p)
    ctx.claim('peak_is_max_abs', ctx.is_maxabs(p, list(x)))
    ctx.claim('deprecated_alias_same', ctx.eq(im.calculate_peak(x), p))
    ctx.claim('sign_reversal_invariant', ctx.is_maxabs(im.calc_peak(-x), list(x)))
    ctx.claim('scales_with_abs_alpha', ctx.is_maxabs(im.calc_peak(alpha * x), [abs(alpha) * e for e in x]))


def object_peaks(ctx, n, dt=0.01):
    """AccSignal.pga/.pgv/.pgd are calc_peak of values / velocity / displacement (identical terms)."""
    a = ctx.arr('a', n)
    lib = ctx.lib
    s = lib.AccSignal(a, dt)
    v, d = lib.displacements.calc_velo_and_disp_from_accel_arr(a, dt)
    for name, series in (('pga', a), ('pgv', v), ('pgd', d)):
        got = getattr(s, name)
        ctx.observe(name, got)
        ctx.claim(name + '_is_calc_peak_of_series', ctx.eq(got, lib.im.calc_peak(series)))
        ctx.claim(name + '_read_idempotent', ctx.eq(getattr(s, name), got))
    # every read order, with repeats, on one object: a peak must not depend on what was read before it (the three
    # properties memoise into one shared dictionary)
    import itertools
    want = {'pga': lib.im.calc_peak(a), 'pgv': lib.im.calc_peak(v), 'pgd': lib.im.calc_peak(d)}
    ok = []
    for order in list(itertools.permutations(('pga', 'pgv', 'pgd'))) + [('pgd', 'pgd', 'pgv'), ('pgv', 'pgd', 'pgv', 'pga', 'pgd')]:
        s2 = lib.AccSignal(a, dt)
        for name in order:
            ok.append(ctx.eq(getattr(s2, name), want[name]))
        ok.append(ctx.eq(lib.im.calc_peak(s2.velocity), want['pgv']))
        ok.append(ctx.eq(lib.im.calc_peak(s2.displacement), want['pgd']))
    ctx.claim('peaks_independent_of_read_order', S.sym_and(*ok))
    ctx.claim('velocity_series_is_array_level', S.sym_and(*[ctx.eq(s.velocity[i], v[i]) for i in range(n)]))
    ctx.claim('displacement_series_is_array_level', S.sym_and(*[ctx.eq(s.displacement[i], d[i]) for i in range(n)]))


SCENARIOS = {'increments': increments, 'linearity': linearity, 'closed_forms': closed_forms, 'calc_peak_free': calc_peak_free,
             'object_peaks': object_peaks}


def obligations(tier, seed):
    q = tier == 'quick'
    ns = [2, 3, 5, 10] if q else [2, 3, 4, 7, 12, 24]
    for n in ns:
        for trap in (True, False):
            for level in ('array', 'object') + (('alias',) if n == 3 else ()):
                yield Ob('increments', {'n': n, 'trap': trap, 'level': level})
    for n in (3, 5):
        for trap in (True, False):
            for level in ('array', 'object'):
                yield Ob('increments', {'n': n, 'trap': trap, 'level': level, 'kind': 'i'})    # integer-dtype record
    for n in (3, 5):
        for trap in (True, False):
            yield Ob('increments', {'n': n, 'trap': trap, 'level': 'object_after_other_rule'})
        yield Ob('increments', {'n': n, 'trap': True, 'level': 'object_default_after_rect'})
    for n in ([2, 4, 8] if q else [2, 5, 12, 20]):
        for trap in (True, False):
            yield Ob('linearity', {'n': n, 'trap': trap})
    for n in ([2, 6, 10] if q else [2, 7, 16, 24]):
        yield Ob('closed_forms', {'n': n})
    for n in ([1, 2, 3, 6, 12] if q else [1, 2, 3, 5, 9, 16, 24]):
        for alpha in (-2.5, 0.3):
            yield Ob('calc_peak_free', {'n': n, 'alpha': alpha}, query_ms=120000)
    for n in ([2, 5, 10] if q else [2, 7, 24]):
        for dt in (0.01, 0.5):
            yield Ob('object_peaks', {'n': n, 'dt': dt})
