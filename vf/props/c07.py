"""C07 - Konno-Ohmachi smoothing is a normalised non-negative log-frequency window."""
import math
from vf.harness import Ob
from vf.engine import scalars as S

PROP = 'C07'

META = {
    'functions_encoded': ['eqsig.fns.frequency.calc_smooth_fa_spectrum', 'generate_smooth_fa_spectrum',
                          'calc_smoothing_matrix_konno_1998', 'calc_smooth_fa_spectrum_w_custom_matrix',
                          'Signal.gen_smooth_fa_spectrum / .smooth_fa_spectrum / .smooth_fa_freqs', 'eqsig.im.calc_bandwidth_freqs / '
                          'calc_bandwidth_f_min / calc_bandwidth_f_max', 'get_sig_freq_range', 'get_sig_array_indexes_range'],
    'stubs': ['np.fft.fft (object path only: DFT definition)'],
    'bounds': {'quick': 'amplitude spectrum symbolic (3..9 bins, values in [0,100], also real-signed and complex through the '
                        'object path); frequency configurations enumerated: Fourier grids with/without the zero bin x target '
                        'sets inside, outside and exactly ON the grid (coincident doubles: the 0/0 branch) x b in '
                        '{5,20,40,100}; bandwidth helpers on an arbitrary symbolic smoothed spectrum (m<=7), ratio in '
                        '{0.5,0.707,0.9}',
               'thorough': 'more grids (up to 17 bins) and target sets'},
    'outside': ['symbolic frequencies / bandwidth (they enter sin and log10: no decision procedure; enumerated instead)',
                'rounding'],
    'assumptions': ['window weights are the doubles the library itself computes (real np.log10 / np.sin on concrete '
                    'frequencies); the oracle recomputes them independently with math.*'],
}


def _weights(freqs, targets, b):
    """column-normalised Konno-Ohmachi weights w[i][j] for Fourier frequency i (non-zero) and target j."""
    fs = [f for f in freqs if f != 0]
    W = []
    for f in fs:
        row = []
        for fc in targets:
            x = b * math.log10(f / fc)
            row.append(1.0 if x == 0 else (math.sin(x) / x) ** 4)
        W.append(row)
    for j in range(len(targets)):
        tot = sum(W[i][j] for i in range(len(fs)))
        for i in range(len(fs)):
            W[i][j] /= tot
    return W


def _grid(nb, zero, df):
    return [k * df for k in range(0 if zero else 1, nb + (0 if zero else 1))]


def direct(ctx, nb, zero, targets_kind, b, df=0.25, deprecated=False, default_targets=False):
    fq = ctx.lib.fns.frequency
    freqs = _grid(nb, zero, df)
    nz = [f for f in freqs if f != 0]
    if targets_kind == 'on':
        targets = [nz[0], nz[len(nz) // 2], nz[-1]]
    elif targets_kind == 'inside':
        targets = [nz[0] * 1.37, (nz[0] + nz[-1]) / 2.0 + 0.013, nz[-1] * 0.93]
    elif targets_kind == 'ulp':
        # targets one unit in the last place away from a Fourier frequency (a grid computed by another formula, e.g.
        # rfftfreq vs arange/(n dt)): the quotient f/fc is not 1 but may round to it, and log10 f - log10 fc may be 0
        import math as _m
        targets = [_m.nextafter(f, _m.inf) for f in nz] + [_m.nextafter(f, 0.0) for f in nz]
    elif targets_kind == 'outside':
        targets = [nz[0] * 0.31, nz[-1] * 2.9]
    else:
        targets = [nz[0], nz[0] * 1.41, nz[-1] * 3.3, nz[-1]]
    A = ctx.arr('A', len(freqs), 0.0, 100.0)
    fr = ctx.np.array(freqs)
    if default_targets:
        out = fq.calc_smooth_fa_spectrum(fr, A, None, band=b)
        targets = nz
    elif deprecated:
        out = fq.generate_smooth_fa_spectrum(ctx.np.array(targets), fr, A, band=b)
    else:
        out = fq.calc_smooth_fa_spectrum(fr, A, ctx.np.array(targets), band=b)
    ctx.observe('out', out)
    ctx.claim('one_value_per_target', len(out) == len(targets), (len(out), len(targets)))
    if len(out) != len(targets):
        return
    Al = [A[i] for i in range(len(freqs)) if freqs[i] != 0]
    W = _weights(freqs, targets, b)
    good = []
    for j in range(len(targets)):
        want = 0.0
        for i in range(len(Al)):
            want = want + Al[i] * W[i][j]
        good.append(ctx.abs_lin_le(out[j] - want, [1e-11] * len(Al), Al))
    ctx.claim('is_konno_ohmachi_weighted_mean', S.sym_and(*good))
    hi = S.sym_extreme_n(Al, True)
    lo = S.sym_extreme_n(Al, False)
    ctx.claim('between_min_and_max_amplitude',
              S.sym_and(*[S.sym_and(out[j] <= hi + 1e-9, out[j] >= lo - 1e-9) for j in range(len(targets))]))
    c = ctx.real('c', 0.0, 100.0)
    const = ctx.np.array([c + 0.0 * A[i] for i in range(len(freqs))])
    oc = fq.calc_smooth_fa_spectrum(fr, const, ctx.np.array(targets), band=b)
    ctx.claim('reproduces_a_constant_spectrum', S.sym_and(*[ctx.abs_lin_le(oc[j] - c, [1e-11], [c]) for j in range(len(targets))]))
    k = ctx.real('k', 0.0, 10.0)
    ok_ = fq.calc_smooth_fa_spectrum(fr, k * A, ctx.np.array(targets), band=b)
    ctx.claim('scales_linearly', S.sym_and(*[ctx.eq(ok_[j], k * out[j], 1e4) for j in range(len(targets))]))
    M = fq.calc_smoothing_matrix_konno_1998(fr, ctx.np.array(targets), band=b)
    ok_m = tuple(M.shape) == (len(Al), len(targets))
    ctx.claim('matrix_shape', ok_m, tuple(M.shape))
    if ok_m:
        ctx.claim('weights_non_negative_and_sum_to_one',
                  all(float(M[i][j]) >= 0 for i in range(len(Al)) for j in range(len(targets))) and
                  all(abs(sum(float(M[i][j]) for i in range(len(Al))) - 1.0) < 1e-12 for j in range(len(targets))))
        good = []
        for j in range(len(targets)):
            tot = 0.0
            for i in range(len(Al)):
                tot = tot + Al[i] * float(M[i][j])
            good.append(ctx.abs_lin_le(out[j] - tot, [1e-12] * len(Al), Al))
        ctx.claim('matrix_form_equals_direct_form', S.sym_and(*good))


def object_path(ctx, npts, targets, b=40):
    """Signal.smooth_fa_spectrum (complex spectrum through the FFT stub) vs the custom-matrix form."""
    lib = ctx.lib
    a = ctx.arr('a', npts, -10.0, 10.0)
    dt = 0.25
    sig = lib.Signal(a, dt, smooth_fa_freqs=ctx.np.array(targets))
    sm = sig.smooth_fa_spectrum
    ctx.observe('sm', sm)
    ctx.claim('one_value_per_target', len(sm) == len(targets))
    M = lib.fns.frequency.calc_smoothing_matrix_konno_1998(sig.fa_freqs, sig.smooth_fa_freqs, band=b)
    alt = lib.fns.frequency.calc_smooth_fa_spectrum_w_custom_matrix(sig, M)
    ctx.claim('matrix_form_equals_direct_form', S.sym_and(*[ctx.eq(alt[j], sm[j], 1e4, rtol=1e-10) for j in range(len(targets))]))
    ctx.claim('non_negative', S.sym_and(*[sm[j] >= 0 for j in range(len(targets))]))
    # an explicit regeneration with another window parameter, on an object that already holds a smoothed spectrum, gives
    # the band-b2 mean (again compared with the matrix form built for b2); likewise after the Fourier spectrum itself
    # was regenerated on a longer padded length
    for b2 in (20, 100):
        sig.gen_smooth_fa_spectrum(band=b2)
        sm2 = sig.smooth_fa_spectrum
        M2 = lib.fns.frequency.calc_smoothing_matrix_konno_1998(sig.fa_freqs, sig.smooth_fa_freqs, band=b2)
        alt2 = lib.fns.frequency.calc_smooth_fa_spectrum_w_custom_matrix(sig, M2)
        ctx.claim('regenerated_with_requested_band_equals_matrix_form',
                  S.sym_and(len(sm2) == len(targets), *[ctx.eq(alt2[j], sm2[j], 1e4, rtol=1e-10) for j in range(min(len(sm2), len(targets)))]), b2)
    sig.gen_fa_spectrum(p2_plus=1)
    sig.gen_smooth_fa_spectrum(band=b)
    sm3 = sig.smooth_fa_spectrum
    M3 = lib.fns.frequency.calc_smoothing_matrix_konno_1998(sig.fa_freqs, sig.smooth_fa_freqs, band=b)
    alt3 = lib.fns.frequency.calc_smooth_fa_spectrum_w_custom_matrix(sig, M3)
    ctx.claim('regenerated_after_new_fourier_spectrum_equals_matrix_form',
              S.sym_and(len(sm3) == len(targets), *[ctx.eq(alt3[j], sm3[j], 1e4, rtol=1e-10) for j in range(min(len(sm3), len(targets)))]))
    # changing the smoothing frequencies re-evaluates (setter path)
    sig.smooth_fa_freqs = ctx.np.array(targets[:1])
    ctx.claim('setter_recomputes', len(sig.smooth_fa_spectrum) == 1)


class _Fake(object):
    pass


def bandwidth(ctx, m, ratio):
    im = ctx.lib.im
    Sm = ctx.arr('S', m, 0.0, 100.0)
    ctx.assume(S.sym_or(*[Sm[i] > 0 for i in range(m)]))
    freqs = [0.1 * 1.7 ** i for i in range(m)]
    fake = _Fake()
    fake.smooth_fa_spectrum = Sm
    fake.smooth_fa_frequencies = ctx.np.array(freqs)
    lo, hi = im.calc_bandwidth_freqs(fake, ratio=ratio)
    i0 = freqs.index(float(lo)) if float(lo) in freqs else None
    i1 = freqs.index(float(hi)) if float(hi) in freqs else None
    ctx.observe('idx', [i0, i1])
    ctx.claim('limits_are_grid_frequencies', i0 is not None and i1 is not None)
    if i0 is None or i1 is None:
        return
    ctx.claim('f_min_not_above_f_max', i0 <= i1, (i0, i1))
    mx = S.sym_extreme_n(list(Sm), True)
    above = [Sm[i] > ratio * mx for i in range(m)]
    ctx.claim('first_and_last_above_ratio_of_peak',
              S.sym_and(above[i0], above[i1], *([S.sym_not(above[i]) for i in range(i0)] +
                                                [S.sym_not(above[i]) for i in range(i1 + 1, m)])), (i0, i1))
    ctx.claim('brackets_the_smoothed_peak', S.sym_or(*[Sm[i] == mx for i in range(i0, i1 + 1)]), (i0, i1))
    ctx.claim('f_min_f_max_helpers_agree', float(im.calc_bandwidth_f_min(fake, ratio=ratio)) == float(lo) and
              float(im.calc_bandwidth_f_max(fake, ratio=ratio)) == float(hi))
    # the index-range helper with its own threshold max/R
    R = 15
    j0, j1 = ctx.lib.fns.frequency.get_sig_array_indexes_range(Sm, ratio=R)
    j0, j1 = int(j0), int(j1)
    ab2 = [Sm[i] > mx / R for i in range(m)]
    ctx.claim('index_range_helper_first_and_last_above_max_over_R',
              S.sym_and(j0 <= j1, ab2[j0], ab2[j1], *([S.sym_not(ab2[i]) for i in range(j0)] +
                                                      [S.sym_not(ab2[i]) for i in range(j1 + 1, m)])), (j0, j1))
    fr = ctx.lib.fns.frequency.get_sig_freq_range(fake, ratio=R)
    ctx.claim('freq_range_helper_maps_indices_to_frequencies', float(fr[0]) == freqs[j0] and float(fr[1]) == freqs[j1])


SCENARIOS = {'direct': direct, 'object_path': object_path, 'bandwidth': bandwidth}
SELFTEST_PER_SCENARIO = 3


def obligations(tier, seed):
    q = tier == 'quick'
    i = 0
    for nb in ((3, 5, 9) if q else (3, 4, 5, 7, 9, 13, 17)):
        for zero in (True, False):
            for kind in ('on', 'inside', 'outside', 'mixed'):
                for b in (5, 20, 40, 100):
                    i += 1
                    if q and i % 2:
                        continue
                    yield Ob('direct', {'nb': nb, 'zero': zero, 'targets_kind': kind, 'b': b}, query_ms=60000)
    yield Ob('direct', {'nb': 4, 'zero': True, 'targets_kind': 'on', 'b': 40, 'deprecated': True})
    yield Ob('direct', {'nb': 4, 'zero': True, 'targets_kind': 'on', 'b': 40, 'default_targets': True})
    yield Ob('direct', {'nb': 3, 'zero': False, 'targets_kind': 'on', 'b': 20, 'df': 0.1})
    # grids on which log10 of a node and of its neighbouring double coincide for several nodes (checked: 7.3, 12.5, 3.4, 0.02)
    for nb, df in ((4, 7.3), (5, 12.5), (4, 3.4), (6, 0.02), (5, 0.25)):
        for b in (40, 188.5):
            yield Ob('direct', {'nb': nb, 'zero': nb % 2 == 0, 'targets_kind': 'ulp', 'b': b, 'df': df}, query_ms=60000)
    for npts, targets in ((4, [0.5, 1.0, 1.3]), (7, [1.0, 0.7, 1.5]), (8, [0.5, 1.5])):
        yield Ob('object_path', {'npts': npts, 'targets': targets}, query_ms=60000, timeout_s=600)
    for m in ((1, 2, 4, 6) if q else (1, 2, 4, 6, 7)):
        for ratio in (0.5, 0.707, 0.9):
            yield Ob('bandwidth', {'m': m, 'ratio': ratio}, query_ms=60000, timeout_s=600)
