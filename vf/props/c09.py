"""C09 - Cumulative intensity measures: definition, monotonicity and scaling laws."""
import math
from vf.harness import Ob
from vf.engine import scalars as S

PROP = 'C09'

META = {
    'functions_encoded': ['eqsig.im._raw_calc_arias_intensity', 'calc_arias_intensity', 'calc_cav', 'calc_cav_dp',
                          'calc_isv', 'calc_integral_of_abs_velocity', 'calc_cumulative_abs_displacement',
                          'calc_integral_of_abs_acceleration', 'calc_unit_kinetic_energy',
                          'AccSignal.velocity (callee)', 'scipy.integrate.cumulative_trapezoid / trapezoid (real code)'],
    'stubs': ['np.interp (last line of calc_cav_dp; concrete abscissae)'],
    'bounds': {'quick': 'n in 2..8 (dt symbolic in [1e-4,10] for Arias/ISV, dt in {0.01,0.5} otherwise); zero padding '
                        'k in 1..3; alpha symbolic (energy-type) or in {-2.5,0.25} (CAV-type and kinetic); CAVdp: dt in '
                        '{0.5,0.25} with 2-3 s records (n=5,7,9)',
               'thorough': 'n up to 16; CAVdp additionally dt in {0.2,0.1} (n=11,21) and 3 s records'},
    'outside': ['rounding on the record', 'CAVdp with dt that is not 1/integer (excluded by the property)',
                "CAVdp is compared with CAV/9.81 at the final value (the series itself is reported one window ahead "
                "of record time, so an element-wise bound does not hold by construction)"],
    'assumptions': [],
}

G = 9.81


def _dt(ctx, dt):
    return ctx.real('dt', 1e-4, 10.0) if dt is None else dt


def _nondecreasing(series):
    return S.sym_and(*[series[i] - series[i - 1] >= 0 for i in range(1, len(series))])


def _trap(y, dt):
    tot = 0.0
    for i in range(1, len(y)):
        tot = tot + dt * (y[i] + y[i - 1]) / 2.0
    return tot


def _velocity(a, dt):
    v = [0.0]
    for i in range(1, len(a)):
        v.append(v[-1] + dt * (a[i] + a[i - 1]) / 2.0)
    return v


def _measure(ctx, asig, which):
    im = ctx.lib.im
    return {'arias': im.calc_arias_intensity, 'cav': im.calc_cav, 'isv': im.calc_isv,
            'abs_vel': im.calc_integral_of_abs_velocity, 'cad': im.calc_cumulative_abs_displacement,
            'abs_acc': im.calc_integral_of_abs_acceleration, 'uke': im.calc_unit_kinetic_energy}[which](asig)


def _oracle_final(a, dt, which):
    n = len(a)
    if which == 'arias':
        return math.pi / (2 * 9.81) * _trap([x * x for x in a], dt)
    if which == 'cav':
        return _trap([S.sym_abs(x) for x in a], dt)
    v = _velocity(a, dt)
    if which == 'isv':
        return _trap([x * x for x in v], dt)
    if which in ('abs_vel', 'cad'):
        tot = 0.0
        for x in v:
            tot = tot + S.sym_abs(x) * dt
        return tot
    if which == 'abs_acc':
        tot = 0.0
        for x in a:
            tot = tot + S.sym_abs(x) * dt
        return tot
    if which == 'uke':
        k = [0.5 * x * S.sym_abs(x) for x in v]
        tot = S.sym_abs(k[0])
        for i in range(1, n):
            tot = tot + S.sym_abs(k[i] - k[i - 1])
        return tot
    raise KeyError(which)


ENERGY = ('arias', 'isv', 'uke')
ACC_BASED = ('arias', 'cav', 'abs_acc')


def definition(ctx, n, which, dt=None, kind='f'):
    # kind 'i': an integer-dtype record (digitiser counts, a list of Python ints) is a record like any other
    a = ctx.iarr('a', n, -100, 100) if kind == 'i' else ctx.arr('a', n, -100.0, 100.0)
    dt = _dt(ctx, dt)
    asig = ctx.lib.AccSignal(a, dt)
    ser = _measure(ctx, asig, which)
    ctx.observe('series', ser)
    ctx.claim('length', len(ser) == n, len(ser))
    if len(ser) != n:
        return
    ctx.claim('non_decreasing', _nondecreasing(ser))
    sc = (100.0 ** 2) * (10.0 * n) ** 3
    ctx.claim('final_is_defining_quadrature', ctx.eq(ser[n - 1], _oracle_final(list(a), dt, which), sc))
    neg = _measure(ctx, ctx.lib.AccSignal(-a, dt), which)
    ctx.claim('sign_reversal_invariant', S.sym_and(*[ctx.eq(neg[i], ser[i], sc) for i in range(n)]))

ALL_MEASURES = ('arias', 'cav', 'isv', 'abs_vel', 'cad', 'abs_acc', 'uke')


def same_object(ctx, n, first, dt=0.01):
    """Every measure computed on ONE AccSignal after `first` (twice) has already been computed on it equals the measure of
    a freshly constructed object, and the object's record / velocity / displacement are what they were: a measure that
    works in place on a cached series (velocity is cached and handed out without a copy) shows here."""
    a = ctx.arr('a', n, -30.0, 30.0)
    lib = ctx.lib
    asig = lib.AccSignal(a, dt)
    fresh0 = lib.AccSignal(a, dt)
    v0 = [x + 0.0 for x in fresh0.velocity]
    d0 = [x + 0.0 for x in fresh0.displacement]
    _measure(ctx, asig, first)
    r2 = _measure(ctx, asig, first)
    want = _measure(ctx, lib.AccSignal(a, dt), first)
    sc = (30.0 ** 2) * (10.0 * n) ** 3
    ctx.observe('again', r2)
    ctx.claim('same_result_when_called_again_on_the_object', S.sym_and(len(r2) == len(want), *[ctx.eq(r2[i], want[i], sc) for i in range(min(len(r2), len(want)))]))
    ok = []
    for which in ALL_MEASURES:
        got = _measure(ctx, asig, which)
        ref = _measure(ctx, lib.AccSignal(a, dt), which)
        ok.append(S.sym_and(len(got) == len(ref), *[ctx.eq(got[i], ref[i], sc) for i in range(min(len(got), len(ref)))]))
    ctx.claim('later_measures_on_the_object_equal_fresh_object', S.sym_and(*ok), first)
    ctx.claim('object_series_unchanged_by_measures',
              S.sym_and(*([ctx.eq(asig.values[i], a[i], sc) for i in range(n)] + [ctx.eq(asig.velocity[i], v0[i], sc) for i in range(n)] +
                          [ctx.eq(asig.displacement[i], d0[i], sc) for i in range(n)])), first)


OPS = {
    'zero_residual_velocity_tz': lambda s_: s_.set_zero_residual_velocity(timezone=(0.2, 0.6)),
    'zero_residual_displacement': lambda s_: s_.set_zero_residual_displacement(),
    'zero_residual_disp_and_velo': lambda s_: s_.set_zero_residual_displacement_and_velocity(),
    'rebase_displacement': lambda s_: s_.rebase_displacement(),
    'add_constant': lambda s_: s_.add_constant(0.75),
    'running_average': lambda s_: s_.running_average(3),
    'reset_values_own_array': lambda s_: s_.reset_values(s_.values),
}


def after_operation(ctx, n, op, dt=0.1):
    """measures of a long-lived object: velocity, PGV and one measure were read, then the record was changed by a public
    operation; every measure must equal the measure of a fresh object holding the same values."""
    a = ctx.arr('a', n, -30.0, 30.0)
    lib = ctx.lib
    asig = lib.AccSignal(a, dt)
    _ = asig.velocity, asig.displacement, asig.pgv
    for which in ALL_MEASURES:          # every measure was already computed for the earlier record (fills any memo)
        _measure(ctx, asig, which)
    if op == 'reset_values_new_record':
        asig.reset_values(ctx.arr('b', n + 3, -30.0, 30.0))
    elif op == 'edit_returned_series':
        r = _measure(ctx, asig, 'arias')
        r *= 0.5                        # a caller normalising the array it was given must not affect later calls
        r2 = _measure(ctx, asig, 'cav')
        r2 *= 0.5
    else:
        OPS[op](asig)
    fresh = lib.AccSignal(asig.values.copy(), dt)
    sc = (30.0 ** 2) * (10.0 * n) ** 3
    ok = []
    for which in ALL_MEASURES:
        got = _measure(ctx, asig, which)
        ref = _measure(ctx, fresh, which)
        ok.append(S.sym_and(len(got) == len(ref), *[ctx.eq(got[i], ref[i], sc) for i in range(min(len(got), len(ref)))]))
    ctx.observe('isv', _measure(ctx, asig, 'isv'))
    ctx.claim('measures_after_an_operation_equal_fresh_object', S.sym_and(*ok), op)


def scaling(ctx, n, which, dt=None, alpha=None):
    a = ctx.arr('a', n, -30.0, 30.0)
    dt = _dt(ctx, dt)
    if alpha is None:
        al = ctx.real('alpha', -30.0, 30.0)
        ctx.assume(al != 0)
    else:
        al = alpha
    base = _measure(ctx, ctx.lib.AccSignal(a, dt), which)
    scaled = _measure(ctx, ctx.lib.AccSignal(al * a, dt), which)
    f = al * al if which in ENERGY else S.sym_abs(al)
    sc = (900.0 ** 2) * (10.0 * n) ** 3
    ctx.claim('homogeneous', S.sym_and(*[ctx.eq(scaled[i], f * base[i], sc) for i in range(n)]))


def zero_padding(ctx, n, which, k, dt=0.01):
    """record ends at zero; appending k zeros changes nothing (acceleration-based measures)."""
    lead = ctx.arr('a', n - 1, -100.0, 100.0)
    dt = _dt(ctx, dt)
    a = ctx.np.array(list(lead) + [0.0])
    padded = ctx.np.array(list(lead) + [0.0] * (k + 1))
    base = _measure(ctx, ctx.lib.AccSignal(a, dt), which)
    ext = _measure(ctx, ctx.lib.AccSignal(padded, dt), which)
    sc = (100.0 ** 2) * (10.0 * (n + k)) ** 3
    ctx.claim('length', len(ext) == n + k, len(ext))
    ctx.claim('prefix_unchanged', S.sym_and(*[ctx.eq(ext[i], base[i], sc) for i in range(n)]))
    ctx.claim('tail_constant', S.sym_and(*[ctx.eq(ext[i], base[n - 1], sc) for i in range(n, n + k)]))


def cav_dp(ctx, dt, seconds):
    pps = int(round(1.0 / dt))
    n = pps * seconds + 1
    a = ctx.arr('a', n, -3.0, 3.0)
    asig = ctx.lib.AccSignal(a, dt)
    ser = ctx.lib.im.calc_cav_dp(asig)
    ctx.observe('cav_dp', ser)
    ctx.claim('length', len(ser) == n, len(ser))
    if len(ser) != n:
        return
    ctx.claim('non_negative', S.sym_and(*[ser[i] >= 0 for i in range(n)]))
    ctx.claim('non_decreasing', _nondecreasing(ser))
    cav = ctx.lib.im.calc_cav(asig)
    final = ser[n - 1]
    sc = 3.0 * n
    ctx.claim('at_most_cav_over_g', ctx.le(final, cav[n - 1] / G, sc))
    g = [S.sym_abs(x) / G for x in a]
    total = 0.0
    slack = 0.0
    quals = []
    for w in range(int(asig.time[-1])):
        js = list(range(w * pps, (w + 1) * pps + 1))
        q = S.sym_or(*[g[j] >= 0.025 for j in js])
        quals.append(q)
        integral = _trap([g[j] for j in js], dt)
        panel = dt * S.sym_extreme_n([g[j] for j in js], True)
        total = total + S.sym_if(q, integral, 0.0)
        slack = slack + S.sym_if(q, panel, 0.0)
    ctx.claim('zero_when_no_window_qualifies', S.sym_or(S.sym_or(*quals), ctx.eq(final, 0.0, sc)))
    ctx.claim('sum_of_qualifying_windows_within_one_panel',
              S.sym_and(ctx.le(total - slack, final, sc), ctx.le(final, total, sc)))


SCENARIOS = {'definition': definition, 'scaling': scaling, 'zero_padding': zero_padding, 'cav_dp': cav_dp, 'same_object': same_object, 'after_operation': after_operation}
SELFTEST_PER_SCENARIO = 4


def obligations(tier, seed):
    q = tier == 'quick'
    ns = [2, 3, 5, 8] if q else [2, 3, 4, 6, 10, 16]
    for which in ('arias', 'cav', 'isv', 'abs_vel', 'cad', 'abs_acc', 'uke'):
        for n in ns:
            dts = [None] if which in ('arias', 'isv') else [0.01, 0.5]
            for dt in dts:
                yield Ob('definition', {'n': n, 'which': which, 'dt': dt}, query_ms=60000)
        for n in ([2, 4, 6] if q else [2, 5, 8, 12]):
            if which in ('arias', 'isv'):
                yield Ob('scaling', {'n': n, 'which': which, 'dt': None, 'alpha': None}, query_ms=60000)
            else:
                for al in (-2.5, 0.25):
                    yield Ob('scaling', {'n': n, 'which': which, 'dt': 0.01, 'alpha': al}, query_ms=60000)
    for which in ALL_MEASURES:
        for n in ((3,) if q else (3, 5)):
            yield Ob('definition', {'n': n, 'which': which, 'dt': 0.01, 'kind': 'i'}, query_ms=60000)
    for op in list(OPS) + ['reset_values_new_record', 'edit_returned_series']:
        yield Ob('after_operation', {'n': 8, 'op': op}, query_ms=60000)
    for first in ALL_MEASURES:
        for n in ((3,) if q else (3, 6)):
            yield Ob('same_object', {'n': n, 'first': first}, query_ms=60000)
    for which in ACC_BASED:
        for n in ([2, 5] if q else [2, 4, 9]):
            for k in ((1, 3) if q else (1, 2, 4)):
                yield Ob('zero_padding', {'n': n, 'which': which, 'k': k, 'dt': None if which == 'arias' else 0.01})
    for dt, sec in ([(0.5, 2), (0.5, 3), (0.25, 2)] if q else [(0.5, 2), (0.5, 3), (0.25, 2), (0.25, 3), (0.2, 2), (0.1, 2)]):
        # dt = 0.1 (21 symbolic samples, |a| of every sample in each window integral) exhausted 1500 s: optional
        yield Ob('cav_dp', {'dt': dt, 'seconds': sec}, query_ms=120000, timeout_s=1500, optional=(dt <= 0.1))
