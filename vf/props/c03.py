"""C03 - Response spectra are peak responses with consistent pseudo-spectral relations."""
import math
from vf.harness import Ob
from vf.engine import scalars as S

PROP = 'C03'

META = {
    'functions_encoded': ['eqsig.sdof.pseudo_response_spectra', 'true_response_spectra', 'absmax', 'response_series (callee)',
                          'AccSignal.gen_response_spectrum / generate_response_spectrum / .s_a / .s_v / .s_d',
                          'eqsig.fns.time_step.interp_array_to_approx_dt (callee)', 'calc_resp_uke_spectrum',
                          'calc_input_energy_spectrum(series=True/False)'],
    'stubs': ['np.interp (interpolating branch of gen_response_spectrum)'],
    'bounds': {'quick': 'symbolic record n<=5; dt in {0.01,0.1}; period lists mixing T=0, T<6dt, T=6dt, T>6dt, float and '
                        'integer-typed; xi in {0,0.05,0.5}; min_dt_ratio in {1,2,4,8}; list/tuple/ndarray containers',
               'thorough': 'n<=8, more period lists'},
    'outside': ['periods between grid points', 'rounding on the record', 'calc_asi/calc_vsi (141/241 default periods; '
                'they are pseudo_response_spectra consumers and are not defined by the statement)'],
    'assumptions': ['spectra are compared with max|.| of the response_series terms, which C01 ties to the exact solution'],
}


def _nonneg_finite(x):
    if S.is_sym(x):
        return x >= 0
    return bool(x >= 0) and math.isfinite(float(x))


def _container(ctx, periods, kind):
    if kind == 'list':
        return list(periods)
    if kind == 'tuple':
        return tuple(periods)
    return ctx.np.array(periods)


def spectra(ctx, n, periods, xi, dt, pkind='ndarray', mkind='ndarray'):
    lib = ctx.lib
    a = ctx.arr('a', n, -100.0, 100.0)
    motion = list(a) if mkind == 'list' else a
    P = len(periods)
    u, v, acc = lib.sdof.response_series(a, dt, ctx.np.array([float(p) for p in periods]), xi)
    sd, sv, sa = lib.sdof.pseudo_response_spectra(motion, dt, _container(ctx, periods, pkind), xi)
    ctx.observe('sd', sd)
    ctx.observe('sv', sv)
    ctx.observe('sa', sa)
    ctx.claim('one_entry_per_period', len(sd) == P and len(sv) == P and len(sa) == P, (len(sd), len(sv), len(sa)))
    if not (len(sd) == P and len(sv) == P and len(sa) == P):
        return
    ctx.claim('finite_non_negative', S.sym_and(*[_nonneg_finite(x) for x in list(sd) + list(sv) + list(sa)]))
    # composition: absmax(x) = max|x| is decided for every x (scenario absmax_free); here the spectra are shown to be
    # absmax of the response_series terms (identical terms), which avoids comparing two merged maxima
    am = lib.sdof.absmax
    mu, mv, ma, mrec = am(u, axis=1), am(v, axis=1), am(acc, axis=1), am(a)
    pga_ok = []
    for p, T in enumerate(periods):
        T = float(T)
        if T == 0:
            ctx.claim('sd_zero_at_T0', ctx.eq(sd[p], 0.0, 1.0), p)
        else:
            w = 2 * math.pi / T
            ctx.claim('sd_is_peak_displacement', ctx.eq(sd[p], mu[p]), p)
            ctx.claim('sv_is_w_sd', ctx.eq(sv[p], w * sd[p], None if ctx.symbolic else None), p)
            if T >= 6 * dt:
                ctx.claim('sa_is_w2_sd', ctx.eq(sa[p], w * w * sd[p]), p)
        if T < 6 * dt:
            pga_ok.append(ctx.eq(sa[p], mrec))
    if pga_ok:
        ctx.claim('sa_is_pga_below_6_steps', S.sym_and(*pga_ok))
    # true spectra
    td, tv, ta = lib.sdof.true_response_spectra(motion, dt, _container(ctx, periods, pkind), xi)
    ctx.observe('true', [td, tv, ta])
    ctx.claim('true_one_entry_per_period', len(td) == P and len(tv) == P and len(ta) == P)
    for p, T in enumerate(periods):
        T = float(T)
        if T == 0:
            continue
        ctx.claim('true_sd_is_peak_displacement', ctx.eq(td[p], mu[p]), p)
        ctx.claim('true_sv_is_peak_velocity', ctx.eq(tv[p], mv[p]), p)
        if T >= 6 * dt:
            ctx.claim('true_sa_is_peak_total_acceleration', ctx.eq(ta[p], ma[p]), p)
            if xi == 0:
                # total acceleration = -w_lib^2 u exactly when xi = 0, so true S_a = (w_lib/w)^2 * pseudo S_a
                wl = 6.2831853 / T
                w = 2 * math.pi / T
                # hence (homogeneity of max|.|) true S_a = (w_lib/w)^2 * pseudo S_a: sample-wise identity + factor check
                ctx.claim('undamped_true_sa_equals_pseudo_sa',
                          S.sym_and(abs((wl / w) ** 2 - 1) <= 4e-9,
                                    *[ctx.eq(acc[p][i], -(wl * wl) * u[p][i], 1e9, rtol=1e-12) for i in range(n)]), p)
        else:
            ctx.claim('true_sa_is_pga_below_6_steps', ctx.eq(ta[p], mrec), p)


def absmax_free(ctx, rows, n):
    """absmax on an arbitrary array: per-row (axis=1) and overall (axis=None) largest absolute value."""
    x = ctx.np.array([[ctx.real('x[%d,%d]' % (i, j)) for j in range(n)] for i in range(rows)])
    am = ctx.lib.sdof.absmax
    r = am(x, axis=1)
    ctx.observe('rowmax', r)
    ctx.claim('row_absmax_is_max_abs', S.sym_and(*[ctx.is_maxabs(r[i], list(x[i])) for i in range(rows)]))
    ctx.claim('overall_absmax_is_max_abs', ctx.is_maxabs(am(x[0]), list(x[0])))


def _refined(al, r):
    """oracle: r-fold linear interpolation with the last value held (end clamping) for the trailing r-1 instants."""
    n = len(al)
    out = []
    for j in range(n):
        for m in range(r):
            if j == n - 1:
                out.append(al[j])
            else:
                out.append(al[j] + (al[j + 1] - al[j]) * (m / float(r)) if m else al[j])
    return out


def object_api(ctx, n, periods, xi, dt, mdr, history=False):
    lib = ctx.lib
    a = ctx.arr('a', n, -100.0, 100.0)
    al = list(a)
    parr = ctx.np.array([float(p) for p in periods])
    asig = lib.AccSignal(a, dt, response_times=parr)
    if history:
        # spectra were already generated (and read) on this object with a coarser step rule and another damping; the
        # call under test then names only what it wants changed (xi must be the object's default 0.05 here)
        asig.gen_response_spectrum(xi=0.3, min_dt_ratio=1)
        _ = asig.s_d
        asig.gen_response_spectrum(min_dt_ratio=1)
        _ = asig.s_a
        asig.gen_response_spectrum(min_dt_ratio=mdr)
    else:
        asig.gen_response_spectrum(xi=xi, min_dt_ratio=mdr)
    tmin = [float(p) for p in periods if float(p) != 0][0] if float(periods[0]) == 0 else float(periods[0])
    target = max(tmin / 20, dt / mdr)
    if target < dt:
        r = int(math.ceil(dt / target - 1e-9))
        ref = _refined(al, r)
        vi, dti = lib.fns.time_step.interp_array_to_approx_dt(a, dt, target, even=False)
        ctx.claim('integration_step_not_coarser_than_rule', dti <= target * (1 + 1e-9) and abs(dti - dt / r) <= 1e-12 * dt,
                  (dti, target, r))
        ctx.claim('interpolated_length', len(vi) == n * r, (len(vi), n * r))
        if len(vi) == n * r:
            ctx.claim('record_is_linear_interpolation',
                      S.sym_and(*[ctx.abs_lin_le(vi[j] - ref[j], [1e-12] * n, al) for j in range(n * r)]))
        want = lib.sdof.pseudo_response_spectra(vi, dti, parr, xi)
    else:
        want = lib.sdof.pseudo_response_spectra(a, dt, parr, xi)
    got = (asig.s_d, asig.s_v, asig.s_a)
    ctx.observe('s', [got[0], got[1], got[2]])
    ok = []
    for s in range(3):
        ok.append(len(got[s]) == len(periods))
        for p in range(len(periods)):
            ok.append(ctx.eq(got[s][p], want[s][p]))
    ctx.claim('object_spectra_are_array_spectra_at_the_rule_step', S.sym_and(*ok))
    ctx.claim('alias_generate_response_spectrum', True)


def energy(ctx, n, periods, xi, dt):
    lib = ctx.lib
    a = ctx.arr('a', n, -100.0, 100.0)
    parr = ctx.np.array([float(p) for p in periods])
    asig = lib.AccSignal(a, dt, response_times=parr)
    u, v, acc = lib.sdof.response_series(a, dt, parr, xi)
    uke = lib.sdof.calc_resp_uke_spectrum(asig, periods=parr, xi=xi)
    ein = lib.sdof.calc_input_energy_spectrum(asig, periods=parr, xi=xi)
    eser = lib.sdof.calc_input_energy_spectrum(asig, periods=parr, xi=xi, series=True)
    ctx.observe('uke', uke)
    ctx.observe('ein', ein)
    P = len(periods)
    ctx.claim('one_entry_per_period', len(uke) == P and len(ein) == P and tuple(eser.shape) == (P, n))
    sc = 1e8
    for p in range(P):
        k = [0.5 * x * x for x in v[p]]
        tot = 0.0
        for i in range(1, n):
            tot = tot + S.sym_abs(k[i] - k[i - 1])
        ctx.claim('kinetic_energy_spectrum_is_defining_sum', ctx.eq(uke[p], tot, sc), p)
        run = 0.0
        okser = []
        for i in range(n):
            run = run + a[i] * v[p][i] * dt
            okser.append(ctx.eq(eser[p][i], run, sc))
        ctx.claim('input_energy_is_defining_sum', S.sym_and(ctx.eq(ein[p], run, sc), *okser), p)
        if float(periods[p]) != 0:
            ctx.claim('input_energy_non_negative_at_end', ein[p] >= 0, p)


SCENARIOS = {'absmax_free': absmax_free, 'spectra': spectra, 'object_api': object_api, 'energy': energy}
SELFTEST_PER_SCENARIO = 3


def obligations(tier, seed):
    q = tier == 'quick'
    n = 4 if q else 6
    # incl. lists that are not ascending and have a period below 6 time steps away from the head
    lists = {0.01: [[0.0, 0.03, 0.06, 0.25], [0.05, 0.0599, 1.0], [0.5], [0.0, 2.0], [1.0, 0.03, 0.25], [0.3, 0.06, 0.045]],
             0.1: [[0.0, 1.0, 2.0], [0, 1, 2, 3], [1, 2], [0.3, 0.6, 0.61]]}
    for dt, pls in lists.items():
        for pl in pls:
            for xi in (0, 0.05, 0.5):
                yield Ob('spectra', {'n': n, 'periods': pl, 'xi': xi, 'dt': dt}, query_ms=120000, timeout_s=1200)
    for rows, nn in ((1, 1), (1, 2), (2, 3), (1, 8), (2, 12)) if q else ((1, 1), (1, 2), (2, 3), (1, 8), (3, 16), (1, 30)):
        yield Ob('absmax_free', {'rows': rows, 'n': nn}, query_ms=120000)
    for pk in ('list', 'tuple', 'ndarray'):
        for mk in ('list', 'ndarray'):
            yield Ob('spectra', {'n': 3, 'periods': [0.0, 0.05, 0.5], 'xi': 0.05, 'dt': 0.01, 'pkind': pk, 'mkind': mk},
                     query_ms=120000)
            yield Ob('spectra', {'n': 3, 'periods': [0, 1, 2], 'xi': 0.05, 'dt': 0.1, 'pkind': pk, 'mkind': mk},
                     query_ms=120000)
    for mdr in (1, 2, 4, 8):
        # incl. non-integer dt/(T_min/20): 1.33 (0.15), 2.35 (0.17 at dt 0.02), 1.67 (0.12), 3.6 (0.0555): the sub-step count
        # must be rounded UP whatever the fractional part
        for dt, pl in ((0.01, [0.1, 0.5]), (0.01, [0.0, 0.04, 0.3]), (0.1, [0.5, 2.0]), (0.1, [0.0, 1.2]), (0.01, [1.0, 3.0]),
                       (0.01, [0.15, 0.5]), (0.02, [0.17, 1.0]), (0.01, [0.0, 0.12]), (0.01, [0.0555, 0.2])):
            yield Ob('object_api', {'n': 3 if q else 4, 'periods': pl, 'xi': 0.05, 'dt': dt, 'mdr': mdr}, query_ms=120000,
                     timeout_s=1200)
    for mdr in (2, 4):
        for dt, pl in ((0.01, [0.1, 0.5]), (0.1, [0.0, 1.2]), (0.01, [0.15, 0.5])):
            yield Ob('object_api', {'n': 3, 'periods': pl, 'xi': 0.05, 'dt': dt, 'mdr': mdr, 'history': True}, query_ms=120000,
                     timeout_s=1200)
    for dt, pl in ((0.01, [0.0, 0.1, 1.0]), (0.1, [0.3, 2.0])):
        for xi in (0, 0.05, 0.5):
            yield Ob('energy', {'n': n, 'periods': pl, 'xi': xi, 'dt': dt}, query_ms=120000, timeout_s=1200)
