"""C12 - Zero crossings and per-half-cycle (switched) peaks are exact."""
from vf.harness import Ob
from vf.engine import scalars as S

PROP = 'C12'

META = {
    'functions_encoded': ['eqsig.fns.peaks_and_crossings.get_zero_crossings_array_indices(keep_adj_zeros, tol)',
                          'get_zero_crossings_indices', 'get_switched_peak_array_indices(tol)',
                          'get_switched_peak_indices', 'get_peak_array_indices (callee)'],
    'stubs': [],
    'bounds': {'quick': 'crossings: n in 1..7, keep_adj_zeros in {F,T}, tol in {0, symbolic in (0,1000]}; switched '
                        'peaks: n in 2..5, tol in {0, symbolic positive (n<=4)}; every real value in [-1000,1000]; '
                        'Float64 lemmas: crossings n in {2,3}, switched peaks n=2 (every finite double)',
               'thorough': 'crossings n<=9; switched peaks n<=7 (tol=0), n<=6 (tol>0); Float64 lemma for switched peaks also n=3'},
    'outside': ['NaN/inf inputs', 'floating point beyond the Float64 lemmas (crossings n=2,3; switched peaks n=2,3 at tol=0)',
                'series longer than the bound', 'negative tol (raises NotImplemented by design)'],
    'assumptions': [],
}


def _sign_change(a, b):
    return S.sym_or(S.sym_and(a > 0, b < 0), S.sym_and(a < 0, b > 0))


def crossings(ctx, n, keep=False, tol=False, via_object=False, split=None):
    pc = ctx.lib.fns.peaks_and_crossings
    x = ctx.arr('x', n)
    if via_object:
        zc = [int(i) for i in pc.get_zero_crossings_indices(ctx.lib.Signal(x, 0.01))]
    else:
        zc = [int(i) for i in pc.get_zero_crossings_array_indices(x, keep_adj_zeros=keep)]
    ctx.observe('zc', zc)
    ok = all(b > a for a, b in zip(zc, zc[1:])) and all(0 <= i < n for i in zc)
    ctx.claim('ascending_no_dups', ok, zc)
    spec = []
    for i in range(n):
        if i == 0:
            want = True
        else:
            z = (x[i] == 0) if keep else S.sym_and(x[i] == 0, x[i - 1] != 0)
            want = S.sym_or(z, _sign_change(x[i - 1], x[i]))
        spec.append(want if i in zc else S.sym_not(want))
    ctx.claim('crossings_exact', S.sym_and(*spec), zc)
    if tol:
        t = ctx.real('tol', 1e-6, 1000.0)
        zt = [int(i) for i in pc.get_zero_crossings_array_indices(x, keep_adj_zeros=keep, tol=t)]
        ctx.observe('zc_tol', zt)
        ctx.claim('tol_subsequence', set(zt) <= set(zc) and sorted(zt) == zt and len(set(zt)) == len(zt), (zc, zt))


def _same_exc(x, i, j):
    if i > j:
        i, j = j, i
    return S.sym_or(S.sym_and(*[x[k] > 0 for k in range(i, j + 1)]),
                    S.sym_and(*[x[k] < 0 for k in range(i, j + 1)]))


def switched(ctx, n, tol=False, via_object=False, split=None):
    pc = ctx.lib.fns.peaks_and_crossings
    x = ctx.arr('x', n)
    if via_object:
        sp = [int(i) for i in pc.get_switched_peak_indices(ctx.lib.Signal(x, 0.01))]
    else:
        sp = [int(i) for i in pc.get_switched_peak_array_indices(x)]
    ctx.observe('sp', sp)
    ok = all(b > a for a, b in zip(sp, sp[1:])) and all(0 <= i < n for i in sp)
    ctx.claim('ascending', ok, sp)
    if not ok:
        return
    # every non-zero sample's excursion contains a reported index with at least its magnitude
    cover = []
    for i in range(n):
        alts = [S.sym_and(_same_exc(x, i, q), S.sym_abs(x[q]) >= S.sym_abs(x[i])) for q in sp]
        cover.append(S.sym_or(x[i] == 0, *alts))
    ctx.claim('excursion_max_reported', S.sym_and(*cover), sp)
    ctx.claim('one_per_excursion', S.sym_and(*[S.sym_not(_same_exc(x, a, b))
                                              for ai, a in enumerate(sp) for b in sp[ai + 1:]]), sp)
    ctx.claim('consecutive_signs_differ',
              S.sym_and(*[S.sym_not(S.sym_or(S.sym_and(x[a] > 0, x[b] > 0), S.sym_and(x[a] < 0, x[b] < 0)))
                          for a, b in zip(sp, sp[1:])]), sp)
    allp = [int(i) for i in pc.get_peak_array_indices(x)]
    ctx.claim('zero_valued_only_at_turning_points',
              S.sym_and(*[S.sym_or(x[q] != 0, q in allp) for q in sp]), (sp, allp))
    if tol:
        t = ctx.real('tol', 1e-6, 1000.0)
        st = [int(i) for i in pc.get_switched_peak_array_indices(x, tol=t)]
        ctx.observe('sp_tol', st)
        ctx.claim('tol_subsequence', set(st) <= set(sp) and sorted(st) == st and len(set(st)) == len(st), (sp, st))


def crossings_fp(ctx, n=3):
    """floating-point lemma: zero crossings on IEEE-754 binary64 values; oracle uses comparisons only."""
    pc = ctx.lib.fns.peaks_and_crossings
    x = ctx.fparr('x', n)
    zc = [int(i) for i in pc.get_zero_crossings_array_indices(x)]
    ctx.observe('zc', zc)
    spec = []
    for i in range(1, n):
        want = S.sym_or(S.sym_and(x[i] == 0.0, x[i - 1] != 0.0), _sign_change(x[i - 1], x[i]))
        spec.append(want if i in zc else S.sym_not(want))
    ctx.claim('fp_crossings_exact', S.sym_and(0 in zc, *spec), zc)


def switched_fp(ctx, n=3):
    """floating-point lemma: switched peaks on IEEE-754 binary64 values (tol = 0).  The oracle uses comparisons only, so
    a sign test done through a product that underflows or overflows shows up as a bit-exact counterexample."""
    pc = ctx.lib.fns.peaks_and_crossings
    x = ctx.fparr('x', n)
    sp = [int(i) for i in pc.get_switched_peak_array_indices(x)]
    ctx.observe('sp', sp)
    ok = all(b > a for a, b in zip(sp, sp[1:])) and all(0 <= i < n for i in sp)
    ctx.claim('fp_ascending', ok, sp)
    if not ok:
        return
    cover = []
    for i in range(n):
        alts = [S.sym_and(_same_exc(x, i, q), abs(x[q]) >= abs(x[i])) for q in sp]
        cover.append(S.sym_or(x[i] == 0.0, *alts))
    ctx.claim('fp_excursion_max_reported', S.sym_and(*cover), sp)
    ctx.claim('fp_one_per_excursion', S.sym_and(*[S.sym_not(_same_exc(x, a, b))
                                                 for ai, a in enumerate(sp) for b in sp[ai + 1:]]), sp)


SCENARIOS = {'crossings': crossings, 'switched': switched, 'crossings_fp': crossings_fp, 'switched_fp': switched_fp}


def obligations(tier, seed):
    q = tier == 'quick'
    top_c = 7 if q else 9
    for n in range(top_c, 0, -1):
        for keep in (False, True):
            d = {8: 3, 9: 5}.get(n, 0)
            if d:
                for k in range(2 ** d):
                    yield Ob('crossings', {'n': n, 'keep': keep, 'split': [d, k]}, timeout_s=1500)
            else:
                yield Ob('crossings', {'n': n, 'keep': keep}, timeout_s=1500)
    for n in range(5 if q else 6, 1, -1):
        for keep in (False, True):
            yield Ob('crossings', {'n': n, 'keep': keep, 'tol': True}, timeout_s=1500)
    yield Ob('crossings', {'n': 4, 'via_object': True})
    top_s = 5 if q else 7
    for n in range(top_s, 1, -1):
        d = {5: 3, 6: 5, 7: 7}.get(n, 0)
        if d:
            for k in range(2 ** d):
                yield Ob('switched', {'n': n, 'split': [d, k]}, timeout_s=1500)
        else:
            yield Ob('switched', {'n': n}, timeout_s=1500)
    for n in range(4 if q else 6, 1, -1):
        d = {4: 2, 5: 4, 6: 6}.get(n, 0)
        if d:
            for k in range(2 ** d):
                yield Ob('switched', {'n': n, 'tol': True, 'split': [d, k]}, timeout_s=1500)
        else:
            yield Ob('switched', {'n': n, 'tol': True}, timeout_s=1500)
    yield Ob('switched', {'n': 4, 'via_object': True})
    yield Ob('crossings_fp', {'n': 2}, query_ms=120000, timeout_s=1500)
    yield Ob('crossings_fp', {'n': 3}, query_ms=120000, timeout_s=1500)
    yield Ob('switched_fp', {'n': 2}, query_ms=120000, timeout_s=1500)
    if not q:
        yield Ob('switched_fp', {'n': 3}, query_ms=240000, timeout_s=2400)
