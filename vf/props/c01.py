"""C01 - SDOF response series is the exact solution of the oscillator equation."""
import math
from fractions import Fraction
from vf.harness import Ob
from vf.engine import scalars as S
from vf.oracles import sdof_ref

PROP = 'C01'
EPS = 2.220446049250313e-16

META = {
    'functions_encoded': ['eqsig.sdof.response_series', 'nigam_and_jennings_response (recurrence, T=0 row offset, sdof_acc rows)',
                          'compute_a_and_b (concrete arguments: the library\'s own double matrices)',
                          'AccSignal.response_series'],
    'stubs': [],
    'bounds': {'quick': 'record length n=6 (all samples symbolic in [-1000,1000]); (T/dt, xi) grid: T/dt in '
                        '{0.2,0.5,1,3,5.9,6,10,50,300,2e3,2e4} x xi in {0,0.02,0.05,0.3,0.9,0.999}, dt cycling through '
                        '{0.005,0.01,1.0}; with and without a leading T=0; period lists of 1-3 entries; one-step '
                        'induction query from an arbitrary reachable state (n=4)',
               'thorough': 'n in {2,3,8,16,24}; the full T/dt x xi x dt grid'},
    'outside': ['records whose component responses cancel (error is asserted relative to sum_k peak_k*|a_k|, the '
                'well-conditioned form of "relative to the series peak": DESIGN 2.4)',
                'round-off of the recurrence on the record itself', 'T/dt and xi between grid points',
                'durations beyond n*dt except through the one-step inductive argument'],
    'assumptions': ['oracle: 80-digit decimal exp(M dt) of the augmented linear system with the true 2*pi'],
}


def _tol(T, dt, n):
    w = 2 * math.pi / T
    return 1e-6 + 5e-8 * ((n - 1) * dt) / T + EPS / (w * dt) ** 3


def _lin(coefs, a):
    tot = 0.0
    for c, x in zip(coefs, a):
        if c != 0:
            tot = tot + x * c if S.is_sym(x) else tot + float(c) * float(x)
    return tot


def _wsum(weights, a):
    tot = 0.0
    for wv, x in zip(weights, a):
        tot = tot + wv * S.sym_abs(x)
    return tot


def exact(ctx, n, ratio, xi, dt, lead0=False, entry='response_series', others=None):
    T = ratio * dt
    a = ctx.arr('a', n)
    lib = ctx.lib
    periods = [0.0, T] if lead0 else [T]
    if others:
        # the period under test sits among other periods, in an order that is not ascending: row k is periods[k]'s response
        # (T first although a shorter period follows: its row index differs from its rank)
        periods = ([0.0] if lead0 else []) + [T] + [o * T for o in others]
    if entry == 'response_series':
        ru, rv, ra = lib.sdof.response_series(a, dt, periods, xi)
    elif entry == 'nigam':
        ru, rv, ra = lib.sdof.nigam_and_jennings_response(a, dt, periods, xi)
    else:
        ru, rv, ra = lib.AccSignal(a, dt).response_series(response_times=ctx.np.array(periods), xi=xi)
    row = periods.index(T)
    ctx.observe('u', ru[row])
    ctx.observe('v', rv[row])
    ctx.observe('a', ra[row])
    ctx.claim('shapes', tuple(ru.shape) == (len(periods), n) and tuple(rv.shape) == (len(periods), n)
              and tuple(ra.shape) == (len(periods), n), (tuple(ru.shape), tuple(rv.shape), tuple(ra.shape)))
    gu, gv, w = sdof_ref.impulse_table(T, xi, dt, n)
    wf = float(w)
    tol = _tol(T, dt, n)
    # component peaks with a floor at the natural response scale, so that a component whose exact response vanishes
    # at the sample instants (velocity when w*dt is a multiple of 2*pi and xi = 0: T/dt in {0.2, 0.5, 1}) still has a
    # rounding-level allowance.  Natural scales: u ~ min(1/w^2, t^2/2) (1% of it), v ~ min(1/w, t).
    dur = n * dt
    fu = 1e-2 * min(1.0 / wf ** 2, dur * dur / 2)
    fv = min(1.0 / wf, dur)
    pu = [max(max(abs(float(gu[i][k])) for i in range(n)), fu) for k in range(n)]
    pv = [max(max(abs(float(gv[i][k])) for i in range(n)), fv) for k in range(n)]
    al = list(a)
    fs = n <= 3
    cu, cv, ca = [], [], []
    for i in range(n):
        cu.append(ctx.abs_lin_le(ru[row][i] - _lin(gu[i], al), [tol * p for p in pu], al, fs))
        cv.append(ctx.abs_lin_le(rv[row][i] - _lin(gv[i], al), [tol * p for p in pv], al, fs))
        want = -(2 * xi * wf * rv[row][i] + wf * wf * ru[row][i])
        ca.append(ctx.abs_lin_le(ra[row][i] - want, [1e-8 * (2 * xi * wf * q + wf * wf * p) for p, q in zip(pu, pv)],
                                 al, fs))
    ctx.claim('displacement_is_exact_solution', S.sym_and(*cu), tol)
    ctx.claim('velocity_is_exact_solution', S.sym_and(*cv), tol)
    ctx.claim('third_series_is_minus_2xiwv_plus_w2u', S.sym_and(*ca))
    ctx.claim('zero_initial_state', S.sym_and(ctx.eq(ru[row][0], 0.0, 1.0), ctx.eq(rv[row][0], 0.0, 1.0)))
    if lead0:
        ctx.claim('T0_row_zero_displacement_velocity',
                  S.sym_and(*[S.sym_and(ctx.eq(ru[0][i], 0.0, 1.0), ctx.eq(rv[0][i], 0.0, 1.0)) for i in range(n)]))
        ctx.claim('T0_row_acceleration_is_sign_flipped_record',
                  S.sym_and(*[ctx.eq(ra[0][i], -a[i], 1000.0) for i in range(n)]))


def entry_points(ctx, n, ratio, xi, dt, lead0=False):
    T = ratio * dt
    a = ctx.arr('a', n)
    lib = ctx.lib
    periods = [0.0, T, 2.5 * T] if lead0 else [T, 2.5 * T]
    r1 = lib.sdof.response_series(a, dt, periods, xi)
    r2 = lib.sdof.nigam_and_jennings_response(a, dt, periods, xi)
    r3 = lib.AccSignal(a, dt).response_series(response_times=ctx.np.array(periods), xi=xi)
    ok = []
    for s in range(3):
        for p in range(len(periods)):
            for i in range(n):
                ok.append(ctx.eq(r1[s][p][i], r2[s][p][i], 1e6))
                ok.append(ctx.eq(r1[s][p][i], r3[s][p][i], 1e6))
    ctx.claim('entry_points_agree', S.sym_and(*ok))


def one_step(ctx, ratio, xi, dt):
    """x[3] from the (arbitrary reachable) state x[2]: the loop body is the reference propagator."""
    T = ratio * dt
    n = 4
    a = ctx.arr('a', n)
    ru, rv, ra = ctx.lib.sdof.response_series(a, dt, [T], xi)
    A, B, w = sdof_ref.propagator(T, xi, dt)
    wf = float(w)
    u2, v2, u3, v3 = ru[0][2], rv[0][2], ru[0][3], rv[0][3]
    pu = A[0][0] * u2 + A[0][1] * v2 + B[0][0] * a[2] + B[0][1] * a[3] if ctx.symbolic else \
        float(A[0][0]) * u2 + float(A[0][1]) * v2 + float(B[0][0]) * a[2] + float(B[0][1]) * a[3]
    pv = A[1][0] * u2 + A[1][1] * v2 + B[1][0] * a[2] + B[1][1] * a[3] if ctx.symbolic else \
        float(A[1][0]) * u2 + float(A[1][1]) * v2 + float(B[1][0]) * a[2] + float(B[1][1]) * a[3]
    delta = 1e-6 + EPS / (wf * dt) ** 3
    # natural scales of one step: state magnitude and the static response to the two load samples
    scale = S.sym_abs(u2) + S.sym_abs(v2) / wf + (S.sym_abs(a[2]) + S.sym_abs(a[3])) * float(
        max(abs(B[0][0]), abs(B[0][1]), abs(B[1][0]) / w, abs(B[1][1]) / w))
    ctx.claim('one_step_displacement', S.sym_abs(u3 - pu) <= delta * scale)
    ctx.claim('one_step_velocity', S.sym_abs(v3 - pv) <= delta * wf * scale)
    # the state at i=2 is an arbitrary reachable state: (u2, v2) as a linear map of (a0, a1, a2) has rank 2
    if ctx.symbolic:
        def co(t, k):
            key = list(a[k].p.keys())[0]
            return t.p.get(key, 0) if isinstance(t, S.SR) else 0
        rows = [[co(u2, k) for k in range(3)], [co(v2, k) for k in range(3)]]
        minors = [rows[0][i] * rows[1][j] - rows[0][j] * rows[1][i] for i in range(3) for j in range(i + 1, 3)]
        ctx.claim('state_at_step_2_is_arbitrary_reachable', any(m != 0 for m in minors))


RATIOS = [0.2, 0.5, 1, 3, 5.9, 6, 10, 50, 300, 2e3, 2e4]
XIS = [0, 0.02, 0.05, 0.3, 0.9, 0.999]
DTS = [0.005, 0.01, 1.0]

SCENARIOS = {'exact': exact, 'entry_points': entry_points, 'one_step': one_step}
SELFTEST_PER_SCENARIO = 3


def obligations(tier, seed):
    q = tier == 'quick'
    import random
    rng = random.Random(seed)
    k = 0
    for r in RATIOS:
        for xi in XIS:
            dts = [DTS[k % 3]] if q else DTS
            k += 1
            for dt in dts:
                ns = [6] if q else [3, 8, 16]
                for n in ns:
                    yield Ob('exact', {'n': n, 'ratio': r, 'xi': xi, 'dt': dt, 'lead0': (k % 2 == 0)}, query_ms=60000)
                yield Ob('one_step', {'ratio': r, 'xi': xi, 'dt': dt}, query_ms=60000)
    for n in ([2] if q else [2, 24]):
        yield Ob('exact', {'n': n, 'ratio': 10, 'xi': 0.05, 'dt': 0.01}, query_ms=60000)
    for entry in ('nigam', 'object'):
        for lead0 in (False, True):
            # every entry point at the damping boundaries as well as at a typical value
            for xi in (0, 0.05, 0.999):
                yield Ob('exact', {'n': 5, 'ratio': 10, 'xi': xi, 'dt': 0.01, 'lead0': lead0, 'entry': entry}, query_ms=60000)
    for entry in ('response_series', 'nigam', 'object'):
        for lead0 in (False, True):
            yield Ob('exact', {'n': 5, 'ratio': 10, 'xi': 0.05, 'dt': 0.01, 'lead0': lead0, 'entry': entry, 'others': [0.4, 2.3]},
                     query_ms=60000)
    for lead0 in (False, True):
        yield Ob('entry_points', {'n': 5, 'ratio': 7.3, 'xi': 0.05, 'dt': 0.01, 'lead0': lead0})
    # seeded random members of the grid interior
    for j in range(3 if q else 12):
        r = round(10 ** rng.uniform(math.log10(0.2), math.log10(2e4)), 3)
        xi = round(rng.uniform(0, 0.99), 3)
        yield Ob('exact', {'n': 6, 'ratio': r, 'xi': xi, 'dt': rng.choice(DTS), 'lead0': bool(j % 2)}, query_ms=60000)
