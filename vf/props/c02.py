"""C02 - Response operator is linear, causal, shift- and refinement-invariant."""
import itertools
from vf.harness import Ob
from vf.engine import scalars as S
from vf.oracles import sdof_ref

PROP = 'C02'

META = {
    'functions_encoded': ['eqsig.sdof.response_series', 'nigam_and_jennings_response', 'pseudo_response_spectra',
                          'true_response_spectra', 'absmax', 'compute_a_and_b (concrete arguments)'],
    'stubs': [],
    'bounds': {'quick': 'n<=8 symbolic samples per record (two records + symbolic alpha,beta for linearity); split '
                        'points i<n; shifts k<=3; refinement factors r in 2..8 (n=3..4); all permutations and '
                        '2-partitions of a 3-period list with/without a leading 0; (T/dt, xi) in '
                        '{0.5,3,6,10,50,2000} x {0,0.05,0.9}',
               'thorough': 'n<=16, shifts k<=4, refinement n=5'},
    'outside': ['rounding on the record', 'n beyond the bound (time invariance of the loop body is what generalises; '
                'see C01 one_step)', 'T/dt, xi between grid points'],
    'assumptions': [],
}

GRID = [(r, xi) for r in (0.5, 3, 6, 10, 50, 2000) for xi in (0, 0.05, 0.9)]


def _resp(ctx, a, dt, periods, xi):
    return ctx.lib.sdof.response_series(a, dt, periods, xi)


def linearity(ctx, n, ratio, xi, dt=0.01):
    T = ratio * dt
    a = ctx.arr('a', n, -30.0, 30.0)
    b = ctx.arr('b', n, -30.0, 30.0)
    al = ctx.real('alpha', -30.0, 30.0)
    be = ctx.real('beta', -30.0, 30.0)
    periods = [T, 2.3 * T]
    ra = _resp(ctx, a, dt, periods, xi)
    rb = _resp(ctx, b, dt, periods, xi)
    rc = _resp(ctx, al * a + be * b, dt, periods, xi)
    for s, name in enumerate(('displacement', 'velocity', 'acceleration')):
        ok = []
        for p in range(len(periods)):
            for i in range(n):
                ok.append(ctx.eq(rc[s][p][i], al * ra[s][p][i] + be * rb[s][p][i], 1e9))
        ctx.claim(name + '_linear', S.sym_and(*ok))


def _is_maxabs(p, series):
    ab = [S.sym_abs(x) for x in series]
    return S.sym_and(S.sym_and(*[p >= x for x in ab]), S.sym_or(*[p == x for x in ab]))


def spectra_scaling(ctx, n, ratio, xi, alpha, dt=0.01):
    """spectra scale by |alpha| and ignore sign.  Decided compositionally (comparing two merged maxima directly is
    what z3 cannot do at n = 6): (i) the spectra of alpha*a are absmax of the response terms of alpha*a (identical
    terms), (ii) those terms are alpha times the terms of a (identical terms), (iii) absmax(alpha*x) is the max-abs of
    |alpha|*x for EVERY x (free array, decided by z3 below and in C03/absmax_free)."""
    T = ratio * dt
    lib = ctx.lib
    a = ctx.arr('a', n, -100.0, 100.0)
    periods = ctx.np.array([T])
    u, v, acc = _resp(ctx, a, dt, periods, xi)
    u2, v2, acc2 = _resp(ctx, alpha * a, dt, periods, xi)
    sd, sv, sa = lib.sdof.pseudo_response_spectra(alpha * a, dt, periods, xi)
    td, tv, ta = lib.sdof.true_response_spectra(alpha * a, dt, periods, xi)
    ctx.observe('sd', sd)
    am = lib.sdof.absmax
    ctx.claim('spectra_of_scaled_record_are_absmax_of_its_response',
              S.sym_and(ctx.eq(sd[0], am(u2, axis=1)[0]), ctx.eq(td[0], am(u2, axis=1)[0]), ctx.eq(tv[0], am(v2, axis=1)[0])))
    ctx.claim('response_of_scaled_record_is_alpha_times_response',
              S.sym_and(*([ctx.eq(u2[0][i], alpha * u[0][i], 1e6) for i in range(n)] +
                          [ctx.eq(v2[0][i], alpha * v[0][i], 1e6) for i in range(n)])))
    x = ctx.arr('x', min(n, 6), -100.0, 100.0)
    ctx.claim('absmax_is_homogeneous_in_abs_alpha', ctx.is_maxabs(am(alpha * x), [abs(alpha) * e for e in x]))


def causality(ctx, n, ratio, xi, dt=0.01):
    T = ratio * dt
    a = ctx.arr('a', n)
    c = ctx.arr('c', n)
    periods = [0.0, T]
    ra = _resp(ctx, a, dt, periods, xi)
    for i in range(n - 1):
        mixed = ctx.np.array(list(a[:i + 1]) + list(c[i + 1:]))
        rm = _resp(ctx, mixed, dt, periods, xi)
        ok = []
        for s in range(3):
            for p in range(2):
                for j in range(i + 1):
                    ok.append(ctx.eq(rm[s][p][j], ra[s][p][j], 1e9))
        ctx.claim('samples_after_i_do_not_matter', S.sym_and(*ok), i)


def shift(ctx, n, k, ratio, xi, dt=0.01):
    T = ratio * dt
    tail = ctx.arr('a', n - 1)
    a = ctx.np.array([0.0] + list(tail))
    z = ctx.np.array([0.0] * k + [0.0] + list(tail))
    periods = [T]
    ra = _resp(ctx, a, dt, periods, xi)
    rz = _resp(ctx, z, dt, periods, xi)
    ok, zeros = [], []
    for s in range(3):
        for j in range(n):
            ok.append(ctx.eq(rz[s][0][j + k], ra[s][0][j], 1e9))
        for j in range(k):
            zeros.append(ctx.eq(rz[s][0][j], 0.0, 1.0))
    ctx.claim('response_delayed_by_k_samples', S.sym_and(*ok))
    ctx.claim('zero_before_the_shifted_start', S.sym_and(*zeros))


def period_batching(ctx, n, ratio, xi, lead0, dt=0.01):
    T = ratio * dt
    a = ctx.arr('a', n)
    base = [T, 1.7 * T, 4.1 * T]
    single = {}
    for t in base:
        r = _resp(ctx, a, dt, [t], xi)
        single[t] = [r[s][0] for s in range(3)]
    ok = []
    lists = [list(p) for p in itertools.permutations(base)] + [base[:1], base[1:], base[:2], base[2:], [base[0], base[2]]]
    for pl in lists:
        full = ([0.0] if lead0 else []) + pl
        r = _resp(ctx, a, dt, full, xi)
        off = 1 if lead0 else 0
        for q, t in enumerate(pl):
            for s in range(3):
                for i in range(n):
                    ok.append(ctx.eq(r[s][q + off][i], single[t][s][i], 1e9))
        # spectra too
        sd, sv, sa = ctx.lib.sdof.pseudo_response_spectra(a, dt, ctx.np.array(full), xi)
        ok.append(len(sd) == len(full))
    ctx.claim('each_period_depends_on_that_period_only', S.sym_and(*ok))


def refinement(ctx, n, r, ratio, xi, dt=0.01):
    T = ratio * dt
    a = ctx.arr('a', n)
    al = list(a)
    fine = []
    for j in range(n - 1):
        for m in range(r):
            fine.append(al[j] + (al[j + 1] - al[j]) * (m / float(r)) if m else al[j])
    fine.append(al[n - 1])
    periods = [T]
    ru = _resp(ctx, a, dt, periods, xi)
    rf = _resp(ctx, ctx.np.array(fine), dt / r, periods, xi)
    gu, gv, w = sdof_ref.impulse_table(T, xi, dt, n)
    wf = float(w)
    dur = n * dt
    pu = [max(max(abs(float(gu[i][k])) for i in range(n)), 1e-2 * min(1 / wf ** 2, dur * dur / 2)) for k in range(n)]
    pv = [max(max(abs(float(gv[i][k])) for i in range(n)), min(1 / wf, dur)) for k in range(n)]
    tol = 2 * (1e-6 + 5e-8 * dur / T + 2.2e-16 / (wf * dt / r) ** 3)
    cu = [ctx.abs_lin_le(rf[0][0][j * r] - ru[0][0][j], [tol * p for p in pu], al) for j in range(n)]
    cv = [ctx.abs_lin_le(rf[1][0][j * r] - ru[1][0][j], [tol * p for p in pv], al) for j in range(n)]
    ctx.claim('refined_response_matches_at_original_instants', S.sym_and(*(cu + cv)), tol)
    if n <= 3 and r == 2:
        # direct cross-check at r=2; for larger r it is the corollary of the clause above and of C03 (sd = max|u|)
        sd0 = ctx.lib.sdof.pseudo_response_spectra(a, dt, ctx.np.array(periods), xi)[0][0]
        sd1 = ctx.lib.sdof.pseudo_response_spectra(ctx.np.array(fine), dt / r, ctx.np.array(periods), xi)[0][0]
        slack = 0.0
        for p, x in zip(pu, al):
            slack = slack + tol * p * S.sym_abs(x)
        ctx.claim('spectral_displacement_never_decreases', sd1 >= sd0 - slack)

def spectra_batching(ctx, n, periods, xi, dt, pkind='ndarray'):
    """'and hence to spectra': every entry of the pseudo and true spectra computed in a batch (any order, any sub-batch,
    with or without a leading 0, integer- or float-typed container) equals the value computed for that period alone.
    On a correct tree every comparison is between identical terms (the same absmax atom times the same factor)."""
    lib = ctx.lib
    a = ctx.arr('a', n, -100.0, 100.0)

    def cont(pl):
        if pkind == 'list':
            return list(pl)
        if pkind == 'tuple':
            return tuple(pl)
        return ctx.np.array(pl)
    alone = {}
    for t in periods:
        ps = lib.sdof.pseudo_response_spectra(a, dt, ctx.np.array([float(t)]), xi)
        ts = lib.sdof.true_response_spectra(a, dt, ctx.np.array([float(t)]), xi)
        alone[t] = [ps[0][0], ps[1][0], ps[2][0], ts[0][0], ts[1][0], ts[2][0]]
    ctx.observe('alone', [alone[t] for t in periods])
    nz = [t for t in periods if t != 0]
    # a period of exactly 0 is documented (and claimed in C01/C03) only in the leading position
    z = [t for t in periods if t == 0][:1]
    batches = [z + nz, z + nz[::-1], nz, nz[::-1], nz[:1] + nz[2:], z + nz[1:], z + nz[1:2] + nz[:1]]
    names = ('sd', 'psv', 'psa', 'true_sd', 'true_sv', 'true_sa')
    ok = {k: [] for k in names}
    for pl in batches:
        if not pl:
            continue
        ps = lib.sdof.pseudo_response_spectra(a, dt, cont(pl), xi)
        ts = lib.sdof.true_response_spectra(a, dt, cont(pl), xi)
        got = list(ps) + list(ts)
        for q, t in enumerate(pl):
            for j, k in enumerate(names):
                ok[k].append(S.sym_and(len(got[j]) == len(pl), ctx.eq(got[j][q], alone[t][j], 1e6)))
    for k in names:
        ctx.claim(k + '_of_each_period_independent_of_batch', S.sym_and(*ok[k]))


def object_level(ctx, n, periods, dt, mdr=4):
    """AccSignal spectra rely on refinement invariance (the record is interpolated to a finer step before integration).
    When the step rule max(T_min/20, dt/min_dt_ratio) is NOT below dt nothing may be interpolated - and certainly nothing
    dropped: s_d/s_v/s_a are then exactly the array-level spectra of the raw samples (identical terms).  When it is below dt,
    the object's values are the array-level spectra of the record refined by the integer factor ceil(dt/target)."""
    import math
    lib = ctx.lib
    a = ctx.arr('a', n, -100.0, 100.0)
    al = list(a)
    parr = ctx.np.array([float(p) for p in periods])
    asig = lib.AccSignal(a, dt, response_times=parr)
    asig.gen_response_spectrum(min_dt_ratio=mdr)
    tmin = [float(p) for p in periods if float(p) != 0][0]
    target = max(tmin / 20, dt / mdr)
    if target < dt:
        r = int(math.ceil(dt / target - 1e-9))
        ref = []
        for i in range(n):
            for j in range(r):
                nxt = al[i + 1] if i + 1 < n else al[i]
                ref.append(al[i] + (nxt - al[i]) * (j / float(r)))
        want = lib.sdof.pseudo_response_spectra(ctx.np.array(ref), dt / r, parr, 0.05)
    else:
        want = lib.sdof.pseudo_response_spectra(a, dt, parr, 0.05)
    got = (asig.s_d, asig.s_v, asig.s_a)
    ctx.observe('s_d', got[0])
    ok = []
    for s_ in range(3):
        ok.append(len(got[s_]) == len(periods))
        for p in range(min(len(got[s_]), len(periods))):
            ok.append(ctx.eq(got[s_][p], want[s_][p], 1e6, rtol=1e-9))
    ctx.claim('object_spectra_are_spectra_of_the_record_refined_by_an_integer_factor_or_left_alone', S.sym_and(*ok),
              (target, dt))


SCENARIOS = {'linearity': linearity, 'spectra_scaling': spectra_scaling, 'causality': causality, 'shift': shift,
             'period_batching': period_batching, 'spectra_batching': spectra_batching, 'object_level': object_level, 'refinement': refinement}
SELFTEST_PER_SCENARIO = 2


def obligations(tier, seed):
    q = tier == 'quick'
    for gi, (r, xi) in enumerate(GRID):
        for n in ((4, 8) if q else (4, 8, 16)):
            if n == 8 and q and gi % 3:
                continue
            yield Ob('linearity', {'n': n, 'ratio': r, 'xi': xi}, query_ms=60000)
        yield Ob('causality', {'n': 5 if q else 8, 'ratio': r, 'xi': xi})
        for k in ((1, 3) if q else (1, 2, 4)):
            yield Ob('shift', {'n': 5 if q else 8, 'k': k, 'ratio': r, 'xi': xi})
        if gi % 3 == 0 or not q:
            for lead0 in (False, True):
                yield Ob('period_batching', {'n': 4, 'ratio': r, 'xi': xi, 'lead0': lead0})
        for rr in ((2, 3, 5, 8) if q else (2, 3, 4, 5, 6, 7, 8)):
            yield Ob('refinement', {'n': 3 if (q or rr > 4) else 5, 'r': rr, 'ratio': r, 'xi': xi}, query_ms=120000)
        if gi % 2 == 0 or not q:
            for alpha in (-2.5, 0.25):
                yield Ob('spectra_scaling', {'n': 4 if q else 6, 'ratio': r, 'xi': xi, 'alpha': alpha}, query_ms=120000)
    for dt, pl, kinds in ((0.1, [0, 1, 2, 3], ('list', 'ndarray', 'tuple')), (0.01, [0.0, 0.03, 0.07, 0.5], ('ndarray', 'list')),
                          (0.1, [1, 2, 7], ('ndarray', 'list')), (0.01, [0.05, 0.2, 1.0], ('ndarray',))):
        for pk in kinds:
            for xi in ((0.05,) if q else (0, 0.05, 0.5)):
                yield Ob('spectra_batching', {'n': 3 if q else 5, 'periods': pl, 'xi': xi, 'dt': dt, 'pkind': pk}, query_ms=120000)
    for dt, pl, mdr in ((0.01, [1.0, 3.0], 4), (0.01, [0.45, 0.9], 4), (0.0025, [0.1, 0.5], 1), (0.01, [0.0, 2.0], 4), (0.01, [0.1, 0.5], 4),
                        (0.01, [0.15, 0.5], 4), (0.02, [0.0, 0.5], 2)):
        yield Ob('object_level', {'n': 6 if q else 9, 'periods': pl, 'dt': dt, 'mdr': mdr}, query_ms=120000, timeout_s=900)
