"""C11 - Local-peak detection is sound and complete on every series."""
from vf.harness import Ob
from vf.engine import scalars as S

PROP = 'C11'

META = {
    'functions_encoded': ['eqsig.fns.peaks_and_crossings.get_peak_array_indices(ptype=all|max|min)',
                          'clean_out_non_changing', 'determine_indices_of_peaks_for_cleaned_array',
                          'get_peak_indices', 'get_n_cyc_array(opt=all, start=origin|peak)'],
    'stubs': ['np.interp (piecewise-linear contract; concrete abscissae in get_n_cyc_array)'],
    'bounds': {'quick': 'series length n in 2..7, every real value in [-1000, 1000] (all 3^(n-1) rise/fall/flat '
                        'patterns are separate feasible paths)',
               'thorough': 'series length n in 2..9'},
    'fp_lemma': 'get_peak_array_indices re-executed on z3 Float64 values (RNE, finite inputs) at n=3 (thorough tier; n=4 optional)',
    'outside': ['NaN/inf inputs', 'floating point beyond the Float64 lemma (n=3 quick, n=4 thorough): round-off in the differences themselves',
                'series longer than the bound'],
    'assumptions': ['series is not constant (property precondition)'],
}


def _is_max(x, all_i, k):
    c = []
    if k > 0:
        c.append(x[all_i[k]] > x[all_i[k - 1]])
    if k + 1 < len(all_i):
        c.append(x[all_i[k]] > x[all_i[k + 1]])
    return S.sym_and(*c)


def _is_min(x, all_i, k):
    c = []
    if k > 0:
        c.append(x[all_i[k]] < x[all_i[k - 1]])
    if k + 1 < len(all_i):
        c.append(x[all_i[k]] < x[all_i[k + 1]])
    return S.sym_and(*c)


def peaks(ctx, n, via_object=False, split=None, kind='f'):
    pc = ctx.lib.fns.peaks_and_crossings
    x = ctx.iarr('x', n, -5, 5) if kind == 'i' else ctx.arr('x', n)
    ctx.assume(S.sym_or(*[x[j] != x[0] for j in range(1, n)]))
    if via_object:
        sig = ctx.lib.Signal(x, 0.01)
        all_i = [int(i) for i in pc.get_peak_indices(sig)]
    else:
        all_i = [int(i) for i in pc.get_peak_array_indices(x)]
    ctx.observe('all', list(all_i))
    ok = len(all_i) >= 2 and all_i[0] == 0 and all(b > a for a, b in zip(all_i, all_i[1:])) and all_i[-1] <= n - 1
    ctx.claim('ascending_from_0', ok, all_i)
    if not ok:
        return
    L = all_i[-1]
    ctx.claim('ends_at_final_run', S.sym_and(*([x[j] == x[L] for j in range(L + 1, n)] +
                                               ([x[L - 1] != x[L]] if L > 0 else []))), all_i)
    ups, downs = [], []
    for p, q in zip(all_i, all_i[1:]):
        ups.append(S.sym_and(x[q] > x[p], *[x[j + 1] >= x[j] for j in range(p, q)]))
        downs.append(S.sym_and(x[q] < x[p], *[x[j + 1] <= x[j] for j in range(p, q)]))
    ctx.claim('monotone_between', S.sym_and(*[S.sym_or(u, d) for u, d in zip(ups, downs)]), all_i)
    alt = [S.sym_or(S.sym_and(ups[s], downs[s + 1]), S.sym_and(downs[s], ups[s + 1])) for s in range(len(ups) - 1)]
    ctx.claim('alternating', S.sym_and(*alt), all_i)
    ctx.claim('first_of_plateau', S.sym_and(*[x[q - 1] != x[q] for q in all_i[1:-1]]), all_i)
    if via_object:
        return
    max_i = [int(i) for i in pc.get_peak_array_indices(x, ptype='max')]
    min_i = [int(i) for i in pc.get_peak_array_indices(x, ptype='min')]
    ctx.observe('max', max_i)
    ctx.observe('min', min_i)
    ctx.claim('max_subset', set(max_i) <= set(all_i) and sorted(max_i) == max_i, (all_i, max_i))
    ctx.claim('min_subset', set(min_i) <= set(all_i) and sorted(min_i) == min_i, (all_i, min_i))
    cm, cn = [], []
    for k, q in enumerate(all_i):
        im = _is_max(x, all_i, k)
        cm.append(im if q in max_i else S.sym_not(im))
        imn = _is_min(x, all_i, k)
        cn.append(imn if q in min_i else S.sym_not(imn))
    ctx.claim('max_exact', S.sym_and(*cm), (all_i, max_i))
    ctx.claim('min_exact', S.sym_and(*cn), (all_i, min_i))
    # cycle counter
    for start, first in (('origin', 0.25), ('peak', 0.5)):
        nc = pc.get_n_cyc_array(x, opt='all', start=start)
        vals = [float(v) for v in nc]
        ctx.observe('ncyc_' + start, vals)
        good = len(vals) == n and all(b >= a for a, b in zip(vals, vals[1:])) and vals[0] == 0.0
        for k, q in enumerate(all_i):
            want = 0.0 if k == 0 else first + 0.5 * (k - 1)
            good = good and abs(vals[q] - want) < 1e-12
        ctx.claim('cycle_counter_' + start, good, (all_i, vals))


def peaks_fp(ctx, n=3):
    """floating-point lemma: the same detection on IEEE-754 binary64 values (bit-exact semantics, finite inputs).
    Oracle uses comparisons only (exact in floating point)."""
    pc = ctx.lib.fns.peaks_and_crossings
    x = ctx.fparr('x', n)
    idx = [int(i) for i in pc.get_peak_array_indices(x)]
    ctx.observe('idx', idx)
    for i in range(1, n - 1):
        turning = S.sym_or(S.sym_and(x[i] > x[i - 1], x[i + 1] < x[i]), S.sym_and(x[i] < x[i - 1], x[i + 1] > x[i]))
        ctx.claim('fp_strict_turning_point_reported', S.sym_or(S.sym_not(turning), i in idx), (i, idx))
        strictly_monotone = S.sym_or(S.sym_and(x[i] > x[i - 1], x[i + 1] > x[i]), S.sym_and(x[i] < x[i - 1], x[i + 1] < x[i]))
        ctx.claim('fp_no_peak_inside_strictly_monotone_run', S.sym_or(S.sym_not(strictly_monotone), i not in idx), (i, idx))


SCENARIOS = {'peaks': peaks, 'peaks_fp': peaks_fp}


def obligations(tier, seed):
    top = 7 if tier == 'quick' else 9
    for n in range(top, 1, -1):
        d = {7: 3, 8: 5, 9: 6}.get(n, 0)
        if d:
            for k in range(2 ** d):
                yield Ob('peaks', {'n': n, 'split': [d, k]}, timeout_s=1500)
        else:
            yield Ob('peaks', {'n': n}, timeout_s=1500)
    for n in (3, 5):
        yield Ob('peaks', {'n': n, 'via_object': True})
    for n in (3, 4):
        yield Ob('peaks', {'n': n, 'kind': 'i'})      # integer-dtype series
    if tier != 'quick':
        # Float64 lemma (the differences are fp.sub terms: ~150 s at n=3), thorough tier
        yield Ob('peaks_fp', {'n': 3}, query_ms=300000, timeout_s=3000)
        yield Ob('peaks_fp', {'n': 4}, query_ms=300000, timeout_s=3000, optional=True)
