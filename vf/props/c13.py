"""C13 - Peak-only series conserve total variation; equivalent-cycle measures are inverse."""
from vf.harness import Ob
from vf.engine import scalars as S

PROP = 'C13'

META = {
    'functions_encoded': ['eqsig.fns.peaks_and_crossings.determine_peaks_only_delta_series',
                          'determine_pseudo_cyclic_peak_only_series', 'determine_peak_only_delta_series_4_cleaned_data',
                          '_determine_peak_only_series_4_cleaned_data', 'clean_out_non_changing',
                          'eqsig.im.calc_n_cyc_array_w_power_law', 'calc_cyc_amp_array_w_power_law',
                          'calc_cyc_amp_gm_arrays_w_power_law', 'calc_cyc_amp_combined_arrays_w_power_law',
                          'get_switched_peak_array_indices (callee)'],
    'stubs': ["scipy.interpolate.interp1d(kind='previous') (value at the greatest node <= x; concrete abscissae)"],
    'bounds': {'quick': 'peak-only series: n in 2..6, every real value, symbolic constant shift; power law: n in 2..4, '
                        'b in {1, 0.5} (scalar) and b=[1] (array), cut_off in {0, 0.01}, symbolic a_ref, n_cyc, alpha>0',
               'thorough': 'peak-only n<=8; power law n<=5, b additionally 0.25'},
    'outside': ['power-law exponents other than 1, 1/2, 1/4 (transcendental powers; x**(1/b) must be polynomial/algebraic)',
                'records containing exact zeros when cut_off = 0 (inf intermediate in a_ref/peak)', 'the inverse relation when the cut-off replaces a peak by 1e-14 '
                '(precondition: cut_off = 0 for that clause)', 'series longer than the bound', 'integer-dtype series: the sign-of-product peak test over z3 Int variables is non-linear '
                'integer arithmetic (did not finish in 10 min at n=3); the real-valued kind is covered'],
    'assumptions': ['series is not constant (property precondition)'],
}


def _tv(x):
    tot = 0.0
    for i in range(1, len(x)):
        tot = tot + S.sym_abs(x[i] - x[i - 1])
    return tot


def _sum(xs):
    tot = 0.0
    for v in xs:
        tot = tot + v
    return tot


def peak_only(ctx, n, split=None, kind='f'):
    pc = ctx.lib.fns.peaks_and_crossings
    x = ctx.iarr('x', n, -100, 100) if kind == 'i' else ctx.arr('x', n, -100.0, 100.0)
    c = ctx.integer('c', -100, 100) if kind == 'i' else ctx.real('c', -100.0, 100.0)
    ctx.assume(S.sym_or(*[x[j] != x[0] for j in range(1, n)]))
    xl = list(x)
    keep = [v + 0.0 for v in xl]
    d = pc.determine_peaks_only_delta_series(x)
    ctx.observe('delta', d)
    ctx.claim('input_not_modified', S.sym_and(*[ctx.eq(x[i], keep[i]) for i in range(n)]))
    ctx.claim('length', len(d) == n, len(d))
    peaks = [int(i) for i in pc.get_peak_array_indices(x)]
    sc = 100.0 * n * 4
    ctx.claim('zero_away_from_peaks', S.sym_and(*[ctx.eq(d[i], 0.0, sc) for i in range(n) if i not in peaks]), peaks)
    ctx.claim('abs_sum_is_total_variation', ctx.eq(_sum([S.sym_abs(v) for v in d]), _tv(xl), sc))
    ctx.claim('signed_sum_magnitude_is_end_minus_start', ctx.eq(S.sym_abs(_sum(list(d))), S.sym_abs(xl[-1] - xl[0]), sc))
    p = pc.determine_pseudo_cyclic_peak_only_series(x)
    ctx.observe('pseudo', p)
    ctx.claim('pseudo_length', len(p) == n, len(p))
    ctx.claim('pseudo_zero_away_from_peaks', S.sym_and(*[ctx.eq(p[i], 0.0, sc) for i in range(n) if i not in peaks]), peaks)
    S_ = _sum(list(p))
    half_tv = _tv(xl) / 2.0
    half_off = (xl[-1] - xl[0]) / 2.0
    alts = []
    for j in range(n - 1, 0, -1):
        dj = xl[j] - xl[j - 1]
        later_flat = [xl[m] == xl[m - 1] for m in range(j + 1, n)]
        alts.append(S.sym_and(dj > 0, ctx.eq(S_, half_tv + half_off, sc), *later_flat))
        alts.append(S.sym_and(dj < 0, ctx.eq(S_, half_tv - half_off, sc), *later_flat))
    ctx.claim('pseudo_cyclic_sum', S.sym_or(*alts))
    # constant shift
    xs = (x + c) if kind == 'i' else ctx.np.array([v + c for v in xl])
    d2 = pc.determine_peaks_only_delta_series(xs)
    p2 = pc.determine_pseudo_cyclic_peak_only_series(xs)
    ctx.claim('shift_invariant', S.sym_and(*([ctx.eq(d2[i], d[i], sc) for i in range(n)] +
                                            [ctx.eq(p2[i], p[i], sc) for i in range(n)])))


def cleaned_helpers(ctx, n):
    """the *_4_cleaned_data helpers called directly (public names; documented precondition: no two adjacent samples
    equal) on a series that does NOT start at zero: same conservation laws, same shift independence."""
    pc = ctx.lib.fns.peaks_and_crossings
    x = ctx.arr('x', n, -100.0, 100.0)
    c = ctx.real('c', -100.0, 100.0)
    ctx.assume(S.sym_and(*[x[j] != x[j - 1] for j in range(1, n)]))
    xl = list(x)
    sc = 100.0 * n * 4
    d = pc.determine_peak_only_delta_series_4_cleaned_data(x)
    ctx.observe('delta', d)
    ctx.claim('length', len(d) == n, len(d))
    ctx.claim('abs_sum_is_total_variation', ctx.eq(_sum([S.sym_abs(v) for v in d]), _tv(xl), sc))
    ctx.claim('signed_sum_magnitude_is_end_minus_start', ctx.eq(S.sym_abs(_sum(list(d))), S.sym_abs(xl[-1] - xl[0]), sc))
    d2 = pc.determine_peak_only_delta_series_4_cleaned_data(ctx.np.array([v + c for v in xl]))
    ctx.claim('shift_invariant', S.sym_and(*[ctx.eq(d2[i], d[i], sc) for i in range(n)]))


def _b(ctx, b, arr):
    return ctx.np.array([b]) if arr else b


def _last(series):
    v = series[len(series) - 1]
    return v[0] if hasattr(v, '__len__') else v


def power_law(ctx, n, b, arr=False, cut_off=0.0, split=None, default_cut=False):
    im = ctx.lib.im
    x = ctx.arr('x', n, -10.0, 10.0)
    a_ref = ctx.real('a_ref', 0.1, 10.0)
    ctx.assume(S.sym_or(*[x[j] != x[0] for j in range(1, n)]))
    if default_cut:
        # the documented default (cut_off = 0.01 of the record's own maximum) on a record none of whose samples is that
        # small: nothing may be cut, whatever the reference amplitude, so the inverse relation holds as for cut_off = 0
        mx = S.sym_extreme_n([S.sym_abs(v) for v in x], True)
        ctx.assume(S.sym_and(*[S.sym_abs(x[j]) * 50 >= mx for j in range(n)]))
        bb = _b(ctx, b, arr)
        nc = im.calc_n_cyc_array_w_power_law(x, a_ref, bb)
        flat = [v[0] if hasattr(v, '__len__') else v for v in nc]
        ctx.observe('n_cyc', flat)
        ctx.claim('cycles_length', len(nc) == n, len(nc))
        ctx.claim('cycles_non_decreasing', S.sym_and(*[flat[i] - flat[i - 1] >= 0 for i in range(1, n)]))
        N = flat[-1]
        ctx.assume(N > 0)
        amp = im.calc_cyc_amp_array_w_power_law(x, N, bb)
        fa = [v[0] if hasattr(v, '__len__') else v for v in amp]
        ctx.claim('amplitude_at_cycles_of_a_ref_is_a_ref', ctx.eq(fa[-1], a_ref, 10.0, rtol=1e-7))
        return
    if cut_off == 0.0:
        # a zero-valued peak divides by zero (inf intermediate, absorbed by 0.5/inf = 0 in floats): outside the
        # real-arithmetic model, so samples are taken non-zero when no cut-off protects the division
        ctx.assume(S.sym_and(*[x[j] != 0 for j in range(n)]))
    bb = _b(ctx, b, arr)
    nc = im.calc_n_cyc_array_w_power_law(x, a_ref, bb, cut_off=cut_off)
    ctx.observe('n_cyc', nc)
    ctx.claim('cycles_length', len(nc) == n, len(nc))
    flat = [v[0] if hasattr(v, '__len__') else v for v in nc]
    ctx.claim('cycles_non_decreasing', S.sym_and(*[flat[i] - flat[i - 1] >= 0 for i in range(1, n)]))
    if cut_off != 0.0:
        return
    N = flat[-1]
    ctx.assume(N > 0)
    amp = im.calc_cyc_amp_array_w_power_law(x, N, bb)
    ctx.observe('amp', amp)
    ctx.claim('amplitude_length', len(amp) == n, len(amp))
    fa = [v[0] if hasattr(v, '__len__') else v for v in amp]
    ctx.claim('amplitude_non_decreasing', S.sym_and(*[fa[i] - fa[i - 1] >= 0 for i in range(1, n)]))
    ctx.claim('amplitude_at_cycles_of_a_ref_is_a_ref', ctx.eq(fa[-1], a_ref, 10.0, rtol=1e-7))


def scaling(ctx, n, b, alpha=2.5, split=None, kind='f'):
    im = ctx.lib.im
    x = ctx.iarr('x', n, -10, 10) if kind == 'i' else ctx.arr('x', n, -10.0, 10.0)
    n_cyc = ctx.real('n_cyc', 0.5, 30.0)
    a_ref = ctx.real('a_ref', 0.1, 10.0)
    ctx.assume(S.sym_or(*[x[j] != x[0] for j in range(1, n)]))
    ctx.assume(S.sym_and(*[x[j] != 0 for j in range(n)]))
    amp = im.calc_cyc_amp_array_w_power_law(x, n_cyc, b)
    amp2 = im.calc_cyc_amp_array_w_power_law(alpha * x, n_cyc, b)
    ctx.claim('amplitude_scales_linearly', S.sym_and(*[ctx.eq(amp2[i], abs(alpha) * amp[i], 1e3, rtol=1e-7) for i in range(n)]))
    nc = im.calc_n_cyc_array_w_power_law(x, a_ref, b, cut_off=0.0)
    nc2 = im.calc_n_cyc_array_w_power_law(alpha * x, abs(alpha) * a_ref, b, cut_off=0.0)
    ctx.claim('cycles_invariant_under_joint_scaling', S.sym_and(*[ctx.eq(nc2[i], nc[i], 1e6, rtol=1e-7) for i in range(n)]))
    # two identical components
    gm = im.calc_cyc_amp_gm_arrays_w_power_law(x, x, n_cyc, b)
    comb = im.calc_cyc_amp_combined_arrays_w_power_law(x, x, n_cyc, b)
    ctx.claim('geometric_mean_of_identical_components', S.sym_and(*[ctx.eq(gm[i], amp[i], 1e3, rtol=1e-7) for i in range(n)]))
    # comb = 2**b * amp  <=>  comb**(1/b) = 2 * amp**(1/b) for non-negative amplitudes (1/b is an integer here): the
    # exact algebraic form, with no rounded irrational constant
    if b >= 1:
        # integer exponent: 2**b is an exact rational
        ctx.claim('combined_identical_components_is_2_pow_b',
                  S.sym_and(*[ctx.eq(comb[i], (2 ** int(b)) * amp[i], 1e3, rtol=1e-7) for i in range(n)]))
        return
    kk = int(round(1.0 / b))
    ctx.claim('combined_identical_components_is_2_pow_b',
              S.sym_and(*[S.sym_and(comb[i] >= 0, amp[i] >= 0, ctx.eq(comb[i] ** kk, 2 * amp[i] ** kk, 1e3 ** kk, rtol=1e-7))
                          for i in range(n)]))

def int_dtype(ctx, n, b, split=None):
    """An integer-dtype record is the same series as its float copy: every C13 quantity computed from the integer array
    equals the one computed from x.astype(float).  Together with the float-kind scenarios this carries every clause over
    to integer records without non-linear integer queries: on a correct tree all comparisons are between identical terms;
    a truncating store or an integer division anywhere in the integer path makes the terms differ and goes to z3."""
    im = ctx.lib.im
    pc = ctx.lib.fns.peaks_and_crossings
    x = ctx.iarr('x', n, -10, 10)
    xf = x.astype(float)
    n_cyc = ctx.real('n_cyc', 0.5, 30.0)
    a_ref = ctx.real('a_ref', 0.1, 10.0)
    ctx.assume(S.sym_or(*[x[j] != x[0] for j in range(1, n)]))
    ctx.assume(S.sym_and(*[x[j] != 0 for j in range(n)]))

    def same(name, fi, ff):
        fi = [v[0] if hasattr(v, '__len__') else v for v in fi]
        ff = [v[0] if hasattr(v, '__len__') else v for v in ff]
        ctx.observe(name, fi)
        ctx.claim('integer_record_gives_the_float_record_values:' + name,
                  S.sym_and(len(fi) == len(ff), *[ctx.eq(fi[i], ff[i], 1e3, rtol=1e-7) for i in range(min(len(fi), len(ff)))]))
    same('delta_series', pc.determine_peaks_only_delta_series(x), pc.determine_peaks_only_delta_series(xf))
    same('pseudo_cyclic_series', pc.determine_pseudo_cyclic_peak_only_series(x), pc.determine_pseudo_cyclic_peak_only_series(xf))
    same('cycles', im.calc_n_cyc_array_w_power_law(x, a_ref, b, cut_off=0.0), im.calc_n_cyc_array_w_power_law(xf, a_ref, b, cut_off=0.0))
    same('amplitude', im.calc_cyc_amp_array_w_power_law(x, n_cyc, b), im.calc_cyc_amp_array_w_power_law(xf, n_cyc, b))
    same('geometric_mean', im.calc_cyc_amp_gm_arrays_w_power_law(x, x, n_cyc, b), im.calc_cyc_amp_gm_arrays_w_power_law(xf, xf, n_cyc, b))
    same('combined', im.calc_cyc_amp_combined_arrays_w_power_law(x, x, n_cyc, b),
         im.calc_cyc_amp_combined_arrays_w_power_law(xf, xf, n_cyc, b))
    same('combined_mixed', im.calc_cyc_amp_combined_arrays_w_power_law(x, xf, n_cyc, b),
         im.calc_cyc_amp_combined_arrays_w_power_law(xf, xf, n_cyc, b))


SCENARIOS = {'peak_only': peak_only, 'power_law': power_law, 'scaling': scaling, 'int_dtype': int_dtype, 'cleaned_helpers': cleaned_helpers}
SELFTEST_PER_SCENARIO = 3


def obligations(tier, seed):
    q = tier == 'quick'
    for n in range(6 if q else 8, 1, -1):
        d = {6: 3, 7: 4, 8: 6}.get(n, 0)
        if d:
            for k in range(2 ** d):
                yield Ob('peak_only', {'n': n, 'split': [d, k]}, query_ms=60000, timeout_s=1500)
        else:
            yield Ob('peak_only', {'n': n}, query_ms=60000, timeout_s=1500)
    bs = [1.0, 0.5] if q else [1.0, 0.5, 0.25]
    for b in bs:
        for n in ((2, 3, 4) if q else (2, 3, 4, 5)):
            d = {4: 3, 5: 5}.get(n, 0)
            for k in range(2 ** d):
                sp = {'split': [d, k]} if d else {}
                yield Ob('power_law', dict({'n': n, 'b': b}, **sp), query_ms=60000, timeout_s=1500)
                yield Ob('scaling', dict({'n': n, 'b': b}, **sp), query_ms=60000, timeout_s=1500)
        yield Ob('power_law', {'n': 3, 'b': b, 'cut_off': 0.01}, query_ms=60000, timeout_s=1500)
    yield Ob('power_law', {'n': 3, 'b': 1.0, 'arr': True}, query_ms=60000, timeout_s=1500)
    for n in ((2, 3) if q else (2, 3, 4)):
        for b in (1.0, 0.5):
            yield Ob('power_law', {'n': n, 'b': b, 'default_cut': True}, query_ms=60000, timeout_s=1500)
    for b in (1.0, 0.5, 2.0):
        for n in ((2, 3, 4) if q else (2, 3, 4, 5)):
            yield Ob('int_dtype', {'n': n, 'b': b}, query_ms=60000, timeout_s=900)
    for n in ((2, 3, 4, 5) if q else (2, 3, 4, 5, 6)):
        yield Ob('cleaned_helpers', {'n': n}, query_ms=60000, timeout_s=900)
