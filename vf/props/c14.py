"""C14 - Resampling keeps the record: bounded step, retained samples, band-limited exact."""
import math
from vf.harness import Ob
from vf.engine import scalars as S

PROP = 'C14'

META = {
    'functions_encoded': ['eqsig.fns.time_step.interp_array_to_approx_dt', 'interp_to_approx_dt', 'resample_to_approx_dt',
                          'AccSignal.gen_response_spectrum(even=False) consumer call (see C03 object_api)'],
    'stubs': ['np.interp (piecewise linear, end clamping)', 'scipy.signal.resample (rfft / irfft branch of SciPy\'s '
              'implementation incl. its unpaired-bin rule; DFT definition with twiddles exact to 2**-90)',
              'np.ceil / np.floor of a symbolic ratio: fork over the feasible integers'],
    'bounds': {'quick': 'record length L in 3..7, values, dt in [1e-3,10] and target_dt all symbolic with '
                        '1/8 <= dt/target <= 8 (every feasible refinement/decimation factor is a separate path); even in '
                        '{T,F}; Fourier resampling: L in {8,9,12}, dt concrete, factors {2,3,1/2,1/3,1}, trigonometric '
                        'polynomials with symbolic coefficients up to harmonic 2',
               'thorough': 'L up to 12 (17 optional); Fourier L up to 16, harmonic 3'},
    'outside': ['dt/target ratios beyond 8', 'floating-point rounding of the quotient dt/target next to an integer '
                '(real-arithmetic model; the probe in DESIGN 2.1 shows target+1ulp is reachable)', "SciPy's FFT itself"],
    'assumptions': ['record duration >= 2*max(dt, target) (property precondition)'],
}


def _step_rule(ctx, dt, target, new_dt):
    """returns (kind, k): kind 'same' | 'refine' | 'decimate' with concrete integer k on this path."""
    ratio = dt / new_dt if ctx.symbolic else float(dt) / float(new_dt)
    if ctx.symbolic:
        if not isinstance(ratio, S.SR):
            r = float(ratio)
        elif ratio.is_const():
            r = float(ratio.const_value())
        else:
            # the ratio is a symbolic term pinned by the path condition (e.g. dt/target on the factor == 1 path)
            r = None
            for c in [1.0] + [float(k) for k in range(2, 9)] + [1.0 / k for k in range(2, 9)]:
                if bool(ratio == c):
                    r = c
                    break
            if r is None:
                return None
    else:
        r = ratio
    if abs(r - 1.0) < 1e-12:
        return 'same', 1
    if r > 1:
        k = int(round(r))
        return ('refine', k) if abs(r - k) < 1e-9 else None
    k = int(round(1.0 / r))
    return ('decimate', k) if abs(1.0 / r - k) < 1e-9 else None


def interp(ctx, L, even, level='array'):
    lib = ctx.lib
    v = ctx.arr('v', L, -100.0, 100.0)
    dt = ctx.real('dt', 1e-3, 10.0)
    target = ctx.real('target', 1e-4, 100.0)
    ctx.assume(S.sym_and(dt <= 8 * target, target <= 8 * dt))
    ctx.assume(S.sym_and((L - 1) * dt >= 2 * dt, (L - 1) * dt >= 2 * target))
    if level == 'array':
        out, new_dt = lib.fns.time_step.interp_array_to_approx_dt(v, dt, target, even=even)
    else:
        sig = lib.fns.time_step.interp_to_approx_dt(lib.AccSignal(v, dt), target, even=even)
        ctx.claim('returns_accsignal', isinstance(sig, lib.AccSignal))
        out, new_dt = sig.values, sig.dt
    ctx.observe('out', out)
    ctx.observe('new_dt', new_dt)
    sc = 1e3
    ctx.claim('new_step_not_above_target', ctx.le(new_dt, target, sc, rtol=1e-12))
    rule = _step_rule(ctx, dt, target, new_dt)
    ctx.claim('ratio_is_integer_or_reciprocal', rule is not None, repr(new_dt))
    if rule is None:
        return
    kind, k = rule
    n_out = len(out)
    vl = list(v)
    if even:
        ctx.claim('even_length_when_requested', n_out % 2 == 0, n_out)
    ctx.claim('non_empty', n_out >= 1, n_out)
    if kind in ('refine', 'same'):
        keep = [ctx.abs_lin_le(out[j * k] - vl[j], [1e-9] * L, vl) for j in range(L) if j * k < n_out]
        ctx.claim('original_samples_retained_when_refining', S.sym_and(*keep), k)
        # finer than needed?  the factor is the smallest integer that reaches the target
        if kind == 'refine':
            ctx.claim('refinement_factor_is_minimal', ctx.le(target, dt / (k - 1), sc, rtol=1e-12) if k > 1 else True, k)
    else:
        sub = [ctx.abs_lin_le(out[i] - vl[i * k], [1e-9] * L, vl) for i in range(n_out) if i * k < L]
        ctx.claim('subsequence_when_decimating', S.sym_and(len(sub) == n_out, *sub), k)
    hi = S.sym_extreme_n(vl, True)
    lo = S.sym_extreme_n(vl, False)
    ctx.claim('values_stay_in_input_range', S.sym_and(*[S.sym_and(out[i] <= hi + 1e-9 * 100, out[i] >= lo - 1e-9 * 100)
                                                        for i in range(n_out)]))
    d_old = (L - 1) * dt
    d_new = (n_out - 1) * new_dt
    big = S.sym_max(dt, new_dt)
    ctx.claim('duration_changes_by_less_than_two_steps', S.sym_and(d_new - d_old < 2 * big, d_old - d_new < 2 * big),
              (L, n_out, kind, k))


def fourier(ctx, L, factor, even, harm, nyq=False):
    """band-limited periodic record: x_j = A0 + sum_k A_k cos(2 pi k j/L) + B_k sin(2 pi k j/L)."""
    lib = ctx.lib
    dt = 0.01
    A0 = ctx.real('A0', -10.0, 10.0)
    A = [ctx.real('A%d' % k, -10.0, 10.0) for k in range(1, harm + 1)]
    B = [ctx.real('B%d' % k, -10.0, 10.0) for k in range(1, harm + 1)]
    coef = [A0] + A + B
    # optional component at the OLD Nyquist frequency (even L): below the new Nyquist whenever the record is refined, so
    # it has to be reproduced as An*cos(pi*t/dt) (the one-sided spectrum's unpaired bin must be split, not doubled)
    An = ctx.real('An', -10.0, 10.0) if nyq else None
    if nyq:
        coef = coef + [An]

    def rec(npts, scale):
        out = []
        for j in range(npts):
            tot = A0 + 0.0
            for k in range(1, harm + 1):
                ang = 2 * math.pi * k * j * scale / L
                tot = tot + A[k - 1] * math.cos(ang) + B[k - 1] * math.sin(ang)
            if nyq:
                tot = tot + An * math.cos(math.pi * j * scale)
            out.append(tot)
        return out
    x = ctx.np.array(rec(L, 1.0))
    target = dt / factor
    sig = lib.fns.time_step.resample_to_approx_dt(lib.AccSignal(x, dt), target, even=even)
    out, new_dt = sig.values, sig.dt
    ctx.observe('out', out)
    ctx.claim('returns_accsignal', isinstance(sig, lib.AccSignal))
    ctx.claim('new_step_not_above_target', float(new_dt) <= target * (1 + 1e-12), (float(new_dt), target))
    r = dt / float(new_dt)
    ok_ratio = abs(r - round(r)) < 1e-9 if r >= 1 else abs(1 / r - round(1 / r)) < 1e-9
    ctx.claim('ratio_is_integer_or_reciprocal', ok_ratio, r)
    n_out = len(out)
    if even:
        ctx.claim('even_length_when_requested', n_out % 2 == 0, n_out)
    # below the new Nyquist?  highest harmonic `harm` cycles per record of L samples -> needs n_out > 2*harm
    if n_out > 2 * harm and L > 2 * harm and (not nyq or (L % 2 == 0 and n_out > L)):
        want = rec(n_out, float(L) / n_out)
        ctx.claim('band_limited_periodic_signal_reproduced',
                  S.sym_and(*[ctx.abs_lin_le(out[j] - want[j], [1e-10] * len(coef), coef) for j in range(n_out)]),
                  (L, n_out))


SCENARIOS = {'interp': interp, 'fourier': fourier}
SELFTEST_PER_SCENARIO = 4


def obligations(tier, seed):
    q = tier == 'quick'
    # L = 17: one of ~1600 queries came back unknown in the end-to-end thorough run (range clause over 17 merged extremes);
    # it is attempted as an optional obligation, L <= 12 is what the thorough tier claims
    for L in ((3, 4, 6, 7) if q else (3, 4, 5, 8, 12, 17)):
        for even in (True, False):
            yield Ob('interp', {'L': L, 'even': even}, query_ms=60000, timeout_s=1500, optional=(L > 12))
    yield Ob('interp', {'L': 5, 'even': True, 'level': 'object'}, query_ms=60000, timeout_s=1500)
    for L in ((8, 9, 12) if q else (8, 9, 12, 15, 16)):
        for factor in (2, 3, 0.5, 1.0 / 3, 1):
            for even in (True, False):
                yield Ob('fourier', {'L': L, 'factor': factor, 'even': even, 'harm': 2 if q else 3}, query_ms=60000)
                if L % 2 == 0 and factor > 1:
                    yield Ob('fourier', {'L': L, 'factor': factor, 'even': even, 'harm': 1, 'nyq': True}, query_ms=60000)
