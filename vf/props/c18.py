"""C18 - Two-component rotation and cluster alignment do what they say."""
import math
from vf.harness import Ob
from vf.engine import scalars as S

PROP = 'C18'

META = {
    'functions_encoded': ['eqsig.multiple.combine_at_angle', 'compute_rotated (parameter names, arias_intensity, callables returning '
                          'scalars or arrays)', 'Cluster.__init__', 'Cluster.same_start', 'Cluster.time_match',
                          'Signal.get_section_average', 'eqsig.fns.average.get_section_average', 'eqsig.fns.time_shift.time_indices'],
    'stubs': [],
    'bounds': {'quick': 'components n=4 symbolic; angles {0,30,90,180,210,270,-45}; offsets {0,25}; points in {3,7}; clusters of '
                        '2..4 signals with every master_index; lags -(steps-1)..steps-1 for steps=2 (lags -1..1) and lags 0..2 at steps=3, n=8, symbolic '
                        'samples and fill values; section windows by time and by index',
               'thorough': 'steps=4 with n=10; n=12 for steps 2,3'},
    'outside': ['combine_motions, calculate_ratios', 'symbolic angles (cos/sin have no decision procedure; enumerated)',
                'lag matching when another lag inside the window also has zero misfit (precondition, imposed in its linear form: for every wrong lag the first compared sample differs)'],
    'assumptions': [],
}


def rotate(ctx, n, angle):
    lib = ctx.lib
    ns = ctx.arr('ns', n, -10.0, 10.0)
    we = ctx.arr('we', n, -10.0, 10.0)
    dt = 0.01
    a_ns, a_we = lib.AccSignal(ns, dt), lib.AccSignal(we, dt)
    c = lib.combine_at_angle(a_ns, a_we, angle)
    ctx.claim('returns_accsignal_same_step', isinstance(c, lib.AccSignal) and c.dt == dt and c.npts == n)
    vars_ = list(ns) + list(we)
    th = math.radians(angle)
    tol = [1e-12] * (2 * n)
    ctx.observe('c', c.values)
    ctx.claim('is_ns_cos_plus_we_sin',
              S.sym_and(*[ctx.abs_lin_le(c.values[i] - (ns[i] * math.cos(th) + we[i] * math.sin(th)), tol, vars_) for i in range(n)]))
    if angle == 0:
        ctx.claim('zero_gives_ns', S.sym_and(*[ctx.abs_lin_le(c.values[i] - ns[i], [1e-15] * (2 * n), vars_) for i in range(n)]))
    if angle == 90:
        ctx.claim('ninety_gives_we', S.sym_and(*[ctx.abs_lin_le(c.values[i] - we[i], [1e-15] * (2 * n), vars_) for i in range(n)]))
    c2 = lib.combine_at_angle(a_ns, a_we, angle + 180)
    ctx.claim('plus_180_negates', S.sym_and(*[ctx.abs_lin_le(c2.values[i] + c.values[i], tol, vars_) for i in range(n)]))


def scan(ctx, n, off, points, measure):
    lib = ctx.lib
    ns = ctx.arr('ns', n, -10.0, 10.0)
    we = ctx.arr('we', n, -10.0, 10.0)
    dt = 0.01
    a_ns, a_we = lib.AccSignal(ns, dt), lib.AccSignal(we, dt)
    if measure == 'arias':
        deg, pv = lib.compute_rotated(a_ns, a_we, angle_off_ns=off, parameter='arias_intensity', points=points)
        f = lambda sig: lib.im.calc_arias_intensity(sig)[-1]
    elif measure == 'pgv':
        deg, pv = lib.compute_rotated(a_ns, a_we, angle_off_ns=off, parameter='pgv', points=points)
        f = lambda sig: sig.pgv
    elif measure == 'func_scalar':
        g = lambda sig: sig.values[0] * 2.0 + sig.values[n - 1]
        deg, pv = lib.compute_rotated(a_ns, a_we, angle_off_ns=off, func=g, points=points)
        f = g
    else:
        g = lambda sig: lib.im.calc_cav(sig)
        deg, pv = lib.compute_rotated(a_ns, a_we, angle_off_ns=off, func=g, points=points)
        f = lambda sig: lib.im.calc_cav(sig)[-1]
    ctx.observe('deg', deg)
    ctx.claim('one_value_per_angle', len(deg) == points and len(pv) == points, (len(deg), len(pv)))
    want = [(-off + 180.0 * i / (points - 1)) % 360 for i in range(points)]
    ctx.claim('angles_span_half_circle', all(abs(float(deg[i]) - want[i]) < 1e-9 or abs(abs(float(deg[i]) - want[i]) - 360) < 1e-9
                                             for i in range(points)), [float(d) for d in deg])
    good = []
    for i in range(points):
        sig = lib.combine_at_angle(a_ns, a_we, float(deg[i]))
        good.append(ctx.eq(pv[i], f(sig), 1e4, rtol=1e-12))
    ctx.claim('each_value_is_the_measure_of_that_combination', S.sym_and(*good))


def same_start(ctx, k, master, n=6, by_index=False, stypes=None, section=None):
    lib = ctx.lib
    recs = [ctx.arr('s%d' % j, n, -10.0, 10.0) for j in range(k)]
    keep = [[v + 0.0 for v in r] for r in recs]
    dt = 0.5
    cl = lib.Cluster(recs, dt, master_index=master, **({} if stypes is None else {'stypes': stypes}))
    if stypes is not None:
        want_t = [stypes] * k if isinstance(stypes, str) else stypes
        ctx.claim('signal_types_as_requested', all(isinstance(cl.signal_by_index(j), lib.AccSignal) == (want_t[j] == 'acc') for j in range(k)), stypes)
    start, end = (0, 1) if section is None else section   # seconds: samples int(start/dt) .. int(end/dt) inclusive
    cl.same_start(start=start, end=end)
    lo, hi = int(start / dt), int(end / dt) + 1
    def mean(vals):
        tot = 0.0
        for v in vals[lo:hi]:
            tot = tot + v
        return tot / (hi - lo)
    m_av = mean(keep[master])
    for j in range(k):
        vals = cl.values_by_index(j)
        ctx.claim('values_are_arrays_of_unchanged_length', hasattr(vals, 'shape') and len(vals) == n, j)
        if j == master:
            ctx.claim('master_unchanged', S.sym_and(*[ctx.eq(vals[i], keep[j][i], 10.0) for i in range(n)]))
        else:
            ctx.claim('section_average_equals_masters', ctx.eq(mean(list(vals)), m_av, 10.0), j)
            ctx.claim('shifted_by_a_constant_only',
                      S.sym_and(*[ctx.eq(vals[i] - keep[j][i], vals[0] - keep[j][0], 10.0) for i in range(n)]), j)
    sig = cl.signal_by_index(master)
    ctx.claim('section_average_by_index_same', ctx.eq(sig.get_section_average(start=lo, end=hi, index=True), m_av, 10.0))


def time_match(ctx, n, steps, lag, k=2, master=0, lags=None, stypes=None):
    """signal `1 - master`... every non-master signal is the master delayed (lag>0) or advanced (lag<0) by |lag|."""
    lib = ctx.lib
    base = ctx.arr('m', n, -10.0, 10.0)
    bl = list(base)
    recs = []
    fills = []

    def lag_of(j):
        # lags (one entry per non-master signal, in cluster order; 0 = already in phase) overrides the alternating pattern
        if lags is not None:
            return lags[[i for i in range(k) if i != master].index(j)]
        return lag if (j % 2 == 1 or k == 2) else -lag
    for j in range(k):
        if j == master:
            recs.append(base)
            continue
        L = lag_of(j)
        f = [ctx.real('fill%d_%d' % (j, t), -10.0, 10.0) for t in range(abs(L))]
        fills.append(f)
        if L >= 0:
            vals = f + bl[:n - L]
        else:
            vals = bl[-L:] + f
        recs.append(ctx.np.array(vals))
    cl = lib.Cluster(recs, 0.01, master_index=master, **({} if stypes is None else {'stypes': stypes}))
    # precondition: within the search window only the true lag has zero misfit
    bm = bl
    for j in range(k):
        if j == master:
            continue
        om = list(recs[j])
        L = lag_of(j)
        for cand in range(-(steps - 1), steps):
            if cand == L:
                continue
            # linear form of the precondition: the first compared sample already differs for every wrong lag
            d0 = (om[cand] - bm[0]) if cand >= 0 else (bm[-cand] - om[0])
            ctx.assume(d0 != 0)
    try:
        cl.time_match(steps=steps)
    except UnboundLocalError:
        pass
    for j in range(k):
        vals = cl.values_by_index(j)
        ctx.claim('values_remain_arrays', hasattr(vals, 'shape'), (j, type(vals).__name__))
        ctx.claim('length_unchanged', len(vals) == n, (j, len(vals)))
        if j == master:
            ctx.claim('master_unchanged', S.sym_and(*[ctx.eq(vals[i], bl[i], 10.0) for i in range(n)]))
            continue
        L = lag_of(j)
        rng = range(0, n - L) if L >= 0 else range(-L, n)
        ctx.claim('overlapping_samples_coincide_after_matching',
                  S.sym_and(*[ctx.eq(vals[i], bl[i], 10.0) for i in rng]), (j, L))
    if lag_of(1 if master == 0 else 0) != 0:
        sig = cl.signal_by_index(1 if master == 0 else 0)
        try:
            sig.add_constant(1.0)
            ctx.claim('matched_signal_still_usable', True)
        except TypeError as e:
            ctx.claim('matched_signal_still_usable', False, repr(e))


SCENARIOS = {'rotate': rotate, 'scan': scan, 'same_start': same_start, 'time_match': time_match}
SELFTEST_PER_SCENARIO = 3


def obligations(tier, seed):
    q = tier == 'quick'
    for ang in (0, 30, 90, 180, 210, 270, -45):
        yield Ob('rotate', {'n': 4, 'angle': ang})
    for off in (0.0, 25.0):
        for points in (3, 7):
            for meas in ('arias', 'pgv', 'func_scalar', 'func_array'):
                yield Ob('scan', {'n': 3, 'off': off, 'points': points, 'measure': meas}, query_ms=60000)
    for k in (2, 3, 4):
        for master in range(k):
            yield Ob('same_start', {'k': k, 'master': master})
    # other sections: interior, one sample, and sections that end exactly on the last sample of the record (n = 6, dt = 0.5)
    for sec in ([1.0, 2.0], [0.5, 0.5], [0, 2.5], [1.5, 2.5], [2.5, 2.5]):
        yield Ob('same_start', {'k': 3, 'master': 1, 'section': sec})
    # AccSignal members ('acc') and mixed clusters behave like plain Signal members
    yield Ob('same_start', {'k': 3, 'master': 1, 'stypes': 'acc'})
    yield Ob('same_start', {'k': 3, 'master': 2, 'stypes': ['acc', 'custom', 'acc']})
    yield Ob('time_match', {'n': 8, 'steps': 2, 'lag': 0, 'k': 3, 'master': 0, 'lags': [1, 0], 'stypes': 'acc'}, query_ms=60000, timeout_s=900)
    yield Ob('time_match', {'n': 8, 'steps': 2, 'lag': 0, 'k': 3, 'master': 1, 'lags': [-1, 1], 'stypes': ['custom', 'acc', 'acc']}, query_ms=60000, timeout_s=900)
    for steps in ((2, 3) if q else (2, 3, 4)):
        for lag in range(-(steps - 1), steps):
            # negative lags at steps >= 3 make every running-minimum comparison a free quadratic inequality: smaller n
            nn = 8 if steps < 4 else 10
            if steps >= 3 and lag < 0:
                if q:
                    continue                     # thorough tier only (50-200 s each)
                nn = 7 if q else 8
            yield Ob('time_match', {'n': nn, 'steps': steps, 'lag': lag}, query_ms=60000, timeout_s=1500,
                     optional=(steps >= 4 or (steps >= 3 and lag <= -2)))     # steps = 4: two of 7 lags came back unknown under load
    yield Ob('time_match', {'n': 8, 'steps': 2, 'lag': 1, 'k': 3, 'master': 1}, query_ms=60000, timeout_s=900)
    yield Ob('time_match', {'n': 8, 'steps': 2, 'lag': 1, 'k': 2, 'master': 1}, query_ms=60000, timeout_s=900)
    if not q:
        yield Ob('time_match', {'n': 8, 'steps': 2, 'lag': -1, 'k': 2, 'master': 1}, query_ms=60000, timeout_s=900)
    yield Ob('time_match', {'n': 8, 'steps': 2, 'lag': 1, 'k': 4, 'master': 0}, query_ms=60000, timeout_s=900)
    # clusters whose non-master signals have different lags, some already in phase (state carried from one signal to
    # the next would show here)
    for kk, master, lags in ((3, 0, [1, 0]), (3, 0, [0, 1]), (3, 1, [1, 0]), (3, 2, [-1, 0]), (4, 0, [1, 0, -1]),
                             (4, 1, [0, 1, 0])) + (() if q else ((3, 0, [2, 0]), (3, 0, [-2, 1]), (4, 3, [2, 0, 1]))):
        st = 3 if max(abs(x) for x in lags) > 1 else 2
        yield Ob('time_match', {'n': 8, 'steps': st, 'lag': 0, 'k': kk, 'master': master, 'lags': lags}, query_ms=60000,
                 timeout_s=900)
