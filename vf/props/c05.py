"""C05 - Signal objects own their data; analysis functions do not mutate inputs."""
import numpy as np
from vf.harness import Ob
from vf.engine import scalars as S

PROP = 'C05'

META = {
    'functions_encoded': ['Signal/AccSignal constructors and reset_values', 'every mutator: add_constant/add_series/add_signal, '
                          'remove_average, remove_poly, running_average, butter_pass, remove_rolling_average (both modes), '
                          'rebase_displacement, set_zero_residual_velocity(timezone), set_zero_residual_displacement, '
                          'set_zero_residual_displacement_and_velocity (3 timezone forms)', 'Cluster.same_start / time_match',
                          'array-level analysis functions of sdof, displacements, im, fns.peaks_and_crossings, fns.time_step, '
                          'stockwell, surface, fns.generic, fns.average, fns.time_shift, fns.frequency (see the PURE table)'],
    'stubs': ['np.fft.fft/ifft, scipy.fftpack.fft/ifft, np.interp, np.polyfit, scipy.signal.filtfilt, interp1d (contract models; '
              'none of them writes to its arguments, as documented)'],
    'bounds': {'quick': 'records n=8 (objects) / n=4..6 (array functions), all samples symbolic; every in-place write on a '
                        'symbolic array is visible whatever the values; value-dependent branches are explored path by path',
               'thorough': 'n=12 objects; mutator pairs; object_pure n=8 (n=6 for functions with value-dependent control flow)'},
    'outside': ['in-place effects INSIDE compiled code (scipy.fftpack.fft(..., overwrite_x=True) in transform_w_scipy_fft): '
                'not visible to a contract model', 'set_zero_residual_velocity(timezone=None) (symbolic integer window length)',
                'integer-dtype records (real-valued kind only)'],
    'assumptions': [],
}

DT = 0.1


def _snap(a):
    return [x for x in np.asarray(a, dtype=object).ravel()]


def _same(ctx, before, a):
    now = _snap(a)
    if len(now) != len(before):
        return False
    return S.sym_and(*[ctx.eq(x, y) if not isinstance(x, (S.SC, complex)) else ctx.eq(x, y) for x, y in zip(before, now)])


def _mutators(lib, n):
    E = {}
    E['add_constant'] = lambda s, c: s.add_constant(c)
    E['add_series'] = lambda s, c: s.add_series(np.arange(n) * 0.5)
    E['add_signal'] = lambda s, c: s.add_signal(lib.Signal(np.arange(n) * 0.25, DT))
    E['remove_average'] = lambda s, c: s.remove_average()
    E['remove_poly'] = lambda s, c: s.remove_poly(poly_fit=1)
    E['running_average'] = lambda s, c: s.running_average(3)
    E['butter_pass'] = lambda s, c: s.butter_pass((None, 2.0), filter_order=1)
    E['remove_rolling_average_v'] = lambda s, c: s.remove_rolling_average(mtype='velocity', freq_window=5)
    E['remove_rolling_average_a'] = lambda s, c: s.remove_rolling_average(mtype='acc', freq_window=5)
    E['rebase_displacement'] = lambda s, c: s.rebase_displacement()
    E['zero_residual_velocity_tz'] = lambda s, c: s.set_zero_residual_velocity(timezone=(0.2, 0.6))
    E['zero_residual_velocity_tz_open'] = lambda s, c: s.set_zero_residual_velocity(timezone=(0.2, None))
    E['zero_residual_displacement'] = lambda s, c: s.set_zero_residual_displacement()
    E['zero_residual_disp_and_velo'] = lambda s, c: s.set_zero_residual_displacement_and_velocity()
    E['zero_residual_disp_and_velo_tz'] = lambda s, c: s.set_zero_residual_displacement_and_velocity(timezone=(0.2, 0.6))
    E['zero_residual_disp_and_velo_tz_open'] = lambda s, c: s.set_zero_residual_displacement_and_velocity(timezone=(0.3, None))
    return E


SIGNAL_ONLY = ('add_constant', 'add_series', 'add_signal', 'remove_average', 'remove_poly', 'running_average', 'butter_pass')


def ownership(ctx, mut, via, cls='AccSignal', n=8):
    lib = ctx.lib
    x = ctx.arr('x', n, -10.0, 10.0)
    c = ctx.real('c', -10.0, 10.0)
    before = _snap(x)
    K = getattr(lib, cls)
    if via == 'ctor':
        sig = K(x, DT)
    else:
        sig = K(np.zeros(n), DT)
        _ = sig.values
        sig.reset_values(x)
    _mutators(lib, n)[mut](sig, c)
    ctx.claim('callers_array_not_modified_by_the_object', _same(ctx, before, x), mut)
    vals = sig.values
    ctx.claim('values_is_numeric_array_of_length_npts', isinstance(vals, np.ndarray) and vals.ndim == 1 and len(vals) == sig.npts,
              (type(vals).__name__, getattr(vals, 'shape', None), sig.npts))
    t = sig.time
    ctx.claim('time_is_dt_times_0_to_npts_minus_1', len(t) == sig.npts and
              all(abs(float(t[i]) - i * DT) <= 1e-12 for i in range(len(t))), [float(v) for v in t][:4])
    held = _snap(vals)
    x[0] = x[0] + 1.0          # the caller keeps using (and modifying) its own array
    x[n - 1] = 0.0
    ctx.claim('object_not_modified_through_the_callers_array', _same(ctx, held, sig.values), mut)
    t2 = sig.time
    t2[1] = 99.0              # a returned time axis is the caller's to modify
    ctx.claim('time_axis_is_not_shared_state', abs(float(sig.time[1]) - DT) <= 1e-12)


class _A(object):
    """lazily built argument set for the PURE table."""

    def __init__(self, ctx, n):
        self.ctx = ctx
        self.n = n
        self.lib = ctx.lib
        self.a = ctx.arr('a', n, -10.0, 10.0)
        self.b = ctx.arr('b', n, -10.0, 10.0)
        self.periods = np.array([0.0, 0.35, 1.0])
        self.c = np.array([0.0, 1.0, 2.0, 3.0, 3.5, 4.0, 4.5, 1.0, -2.5, -6.0, -5.0, -4.0])
        self._asig = None

    @property
    def asig(self):
        if self._asig is None:
            self._asig = self.lib.AccSignal(self.a, DT)
        return self._asig


def _pure_table():
    T = {}
    T['response_series'] = lambda A: (A.lib.sdof.response_series(A.a, DT, A.periods, 0.05), [A.a, A.periods])
    T['pseudo_response_spectra'] = lambda A: (A.lib.sdof.pseudo_response_spectra(A.a, DT, A.periods, 0.05), [A.a, A.periods])
    T['true_response_spectra'] = lambda A: (A.lib.sdof.true_response_spectra(A.a, DT, A.periods, 0.05), [A.a, A.periods])
    T['velo_disp_trap'] = lambda A: (A.lib.displacements.calc_velo_and_disp_from_accel_arr(A.a, DT), [A.a])
    T['velo_disp_rect'] = lambda A: (A.lib.displacements.calc_velo_and_disp_from_accel_arr(A.a, DT, trap=False), [A.a])
    for nm in ('calc_arias_intensity', 'calc_cav', 'calc_isv', 'calc_integral_of_abs_velocity',
               'calc_integral_of_abs_acceleration', 'calc_unit_kinetic_energy'):
        T[nm] = (lambda nm_: (lambda A: (getattr(A.lib.im, nm_)(A.asig), [A.asig.values])))(nm)
    T['calc_peak'] = lambda A: (A.lib.im.calc_peak(A.a), [A.a])
    T['calc_brac_dur'] = lambda A: (A.lib.im.calc_brac_dur(A.asig, 1.0, se=True), [A.asig.values])
    T['calc_sig_dur_vals'] = lambda A: (_try(lambda: A.lib.im.calc_sig_dur_vals(A.a, DT, se=True)), [A.a])
    T['get_peak_array_indices'] = lambda A: (A.lib.fns.peaks_and_crossings.get_peak_array_indices(A.a), [A.a])
    T['get_zero_crossings'] = lambda A: (A.lib.fns.peaks_and_crossings.get_zero_crossings_array_indices(A.a), [A.a])
    T['get_switched_peaks'] = lambda A: (A.lib.fns.peaks_and_crossings.get_switched_peak_array_indices(A.a), [A.a])
    T['peaks_only_delta'] = lambda A: (_try(lambda: A.lib.fns.peaks_and_crossings.determine_peaks_only_delta_series(A.a)), [A.a])
    T['pseudo_cyclic'] = lambda A: (_try(lambda: A.lib.fns.peaks_and_crossings.determine_pseudo_cyclic_peak_only_series(A.a)), [A.a])
    T['get_n_cyc_array'] = lambda A: (A.lib.fns.peaks_and_crossings.get_n_cyc_array(A.a), [A.a])
    T['get_n_cyc_array_switched'] = lambda A: (A.lib.fns.peaks_and_crossings.get_n_cyc_array(A.a, opt='switched', start='peak'), [A.a])
    T['get_peak_array_indices_max'] = lambda A: (A.lib.fns.peaks_and_crossings.get_peak_array_indices(A.a, ptype='max'), [A.a])
    # (this helper raises IndexError for some short series on the tree as given - observed, outside every statement; the
    # exception is treated as its result here: C05 asks for unchanged inputs and repeatability)
    T['get_zero_and_peak_array_indices'] = lambda A: (_try(lambda: A.lib.fns.peaks_and_crossings.get_zero_and_peak_array_indices(A.a)), [A.a])
    # concrete inputs for the slope-change helper (its np.isclose test is on concrete data here): the in-place question
    # does not depend on the values
    T['get_major_change_indices'] = lambda A: (A.lib.fns.peaks_and_crossings.get_major_change_indices(A.c, dx=0.5), [A.c])
    T['get_major_change_indices_already_diff'] = lambda A: (A.lib.fns.peaks_and_crossings.get_major_change_indices(
        A.c, already_diff=True, dx=4.0, rtol=1e-6, atol=0.5), [A.c])
    T['clean_out_non_changing'] = lambda A: (A.lib.fns.peaks_and_crossings.clean_out_non_changing(A.a), [A.a])
    T['n_cyc_power_law'] = lambda A: (A.lib.im.calc_n_cyc_array_w_power_law(A.a, 1.0, 1.0, cut_off=0.01), [A.a])
    T['cyc_amp_power_law'] = lambda A: (A.lib.im.calc_cyc_amp_array_w_power_law(A.a, 2.0, 1.0), [A.a])
    T['cyc_amp_combined'] = lambda A: (A.lib.im.calc_cyc_amp_combined_arrays_w_power_law(A.a, A.b, 2.0, 1.0), [A.a, A.b])
    T['cyc_amp_gm'] = lambda A: (A.lib.im.calc_cyc_amp_gm_arrays_w_power_law(A.a, A.b, 2.0, 1.0), [A.a, A.b])
    T['interp_array_to_approx_dt'] = lambda A: (A.lib.fns.time_step.interp_array_to_approx_dt(A.a, DT, 0.04), [A.a])
    T['stockwell_transform'] = lambda A: (A.lib.stockwell.transform(A.a), [A.a])
    T['stockwell_transform_scipy'] = lambda A: (A.lib.stockwell.transform_w_scipy_fft(A.a), [A.a])
    T['surface_energy'] = lambda A: (A.lib.surface.calc_surface_energy(A.asig, np.array([0.05, 0.2]), trim=True), [A.asig.values])
    T['cum_abs_surface_energy'] = lambda A: (A.lib.surface.calc_cum_abs_surface_energy(A.asig, np.array([0.05, 0.2]), trim=True),
                                             [A.asig.values])
    T['remove_poly_fn'] = lambda A: (A.lib.fns.generic.remove_poly(A.a, 1), [A.a])
    T['calc_roll_av_vals'] = lambda A: (A.lib.fns.average.calc_roll_av_vals(A.a, 3, mode='centre'), [A.a])
    T['calc_step_fn_vals_error'] = lambda A: (A.lib.fns.average.calc_step_fn_vals_error(A.a, pow=2), [A.a])
    T['put_array_in_2d_array'] = lambda A: (A.lib.fns.time_shift.put_array_in_2d_array(A.a, np.array([-1, 2])), [A.a])
    T['join_values_w_shifts'] = lambda A: (A.lib.fns.time_shift.join_values_w_shifts(A.a, np.array([1, 2])), [A.a])
    T['calc_fa_spectrum'] = lambda A: (A.lib.fns.frequency.calc_fa_spectrum(A.asig), [A.asig.values])
    T['interp2d'] = lambda A: (A.lib.fns.generic.interp2d(np.array([0.5, 1.5]), np.arange(A.n) * 1.0, A.a[:, None] * np.ones((1, 2))), [A.a])
    T['interp_left'] = lambda A: (A.lib.fns.generic.interp_left(np.array([0.5, 2.5]), np.arange(A.n) * 1.0, A.a), [A.a])
    T['smooth_fa'] = lambda A: (A.lib.fns.frequency.calc_smooth_fa_spectrum(np.arange(A.n) * 0.5, A.a, np.array([0.7, 1.1])), [A.a])
    return T


def _try(f):
    try:
        return f()
    except (IndexError, ZeroDivisionError) as e:
        return type(e).__name__


def _flat(res):
    if isinstance(res, (tuple, list)):
        out = []
        for r in res:
            out.extend(_flat(r))
        return out
    if isinstance(res, np.ndarray):
        return _snap(res)
    return [res]


def pure(ctx, fname, n=4):
    A = _A(ctx, n)
    if 'power_law' in fname or fname.startswith('cyc_amp') or fname.startswith('n_cyc'):
        # zero-valued peaks divide by zero (inf intermediate): outside the real-arithmetic model (see C13)
        ctx.assume(S.sym_and(*[A.a[j] != 0 for j in range(n)]))
        ctx.assume(S.sym_and(*[A.b[j] != 0 for j in range(n)]))
    f = _pure_table()[fname]
    snaps = None
    # arguments are identified on a dry evaluation of the argument list (asig creation copies, so snapshot its values too)
    pre_a, pre_b, pre_p, pre_c = _snap(A.a), _snap(A.b), _snap(A.periods), _snap(A.c)
    res, args = f(A)
    before_obj = None
    ctx.claim('input_arrays_unchanged', S.sym_and(_same(ctx, pre_a, A.a), _same(ctx, pre_b, A.b), _same(ctx, pre_p, A.periods),
                                                  _same(ctx, pre_c, A.c)), fname)
    if A._asig is not None:
        ctx.claim('signal_values_unchanged', _same(ctx, pre_a, A.asig.values), fname)
    r1 = _flat(res)
    res2, _ = f(A)
    r2 = _flat(res2)
    ok = len(r1) == len(r2)
    good = [ok]
    if ok:
        for u, v in zip(r1, r2):
            if isinstance(u, (str, type(None))) or isinstance(v, (str, type(None))):
                good.append(u == v)
            else:
                good.append(ctx.eq(u, v))
    ctx.claim('same_result_when_called_again', S.sym_and(*good), fname)

OBS = ['values', 'time', 'velocity', 'displacement', 'fa_spectrum', 'fa_freqs', 'smooth_fa_spectrum', 'pga', 'pgv', 'pgd',
       's_a', 's_v', 's_d', 'response_times', 'smooth_fa_freqs', 'npts', 'dt']


def _obj_table():
    """analysis functions applied to a signal OBJECT, or to the arrays the object hands out (its cached arrays are
    returned without a copy, so an analysis function that works in place would corrupt the object silently)."""
    pc = lambda L: L.fns.peaks_and_crossings
    T = {}
    for nm in ('calc_arias_intensity', 'calc_cav', 'calc_isv', 'calc_integral_of_abs_velocity', 'calc_cumulative_abs_displacement',
               'calc_integral_of_abs_acceleration', 'calc_unit_kinetic_energy', 'max_fa_period'):
        T[nm] = (lambda nm_: (lambda L, s: getattr(L.im, nm_)(s)))(nm)
    T['calc_brac_dur'] = lambda L, s: L.im.calc_brac_dur(s, 1.0, se=True)
    T['calc_sig_dur'] = lambda L, s: _try(lambda: L.im.calc_sig_dur(s, se=True))
    T['fas2values_of_cached_spectrum'] = lambda L, s: L.fns.frequency.fas2values(s.fa_spectrum, s.dt)
    T['fas2signal_of_cached_spectrum'] = lambda L, s: L.fns.frequency.fas2signal(s.fa_spectrum, s.dt).values
    T['calc_fa_spectrum'] = lambda L, s: L.fns.frequency.calc_fa_spectrum(s)
    T['generate_fa_spectrum_fn'] = lambda L, s: L.fns.frequency.generate_fa_spectrum(s)
    T['smooth_of_cached_spectrum'] = lambda L, s: L.fns.frequency.calc_smooth_fa_spectrum(s.fa_freqs, s.fa_spectrum, s.smooth_fa_freqs)
    T['peaks_only_delta_of_values'] = lambda L, s: _try(lambda: pc(L).determine_peaks_only_delta_series(s.values))
    T['pseudo_cyclic_of_values'] = lambda L, s: _try(lambda: pc(L).determine_pseudo_cyclic_peak_only_series(s.values))
    T['peaks_only_delta_of_velocity'] = lambda L, s: _try(lambda: pc(L).determine_peaks_only_delta_series(s.velocity))
    T['switched_peaks_of_object'] = lambda L, s: pc(L).get_switched_peak_indices(s)
    T['zero_crossings_of_displacement'] = lambda L, s: pc(L).get_zero_crossings_array_indices(s.displacement)
    T['n_cyc_of_values'] = lambda L, s: pc(L).get_n_cyc_array(s.values)
    T['velo_disp_of_values'] = lambda L, s: L.displacements.calc_velo_and_disp_from_accel_arr(s.values, s.dt)
    T['spectra_of_values_and_times'] = lambda L, s: L.sdof.pseudo_response_spectra(s.values, s.dt, s.response_times, 0.05)
    T['response_series_of_object'] = lambda L, s: s.response_series()
    T['roll_av_of_velocity'] = lambda L, s: L.fns.average.calc_roll_av_vals(s.velocity, 3, mode='centre')
    T['calc_peak_of_time'] = lambda L, s: L.im.calc_peak(s.time)
    T['interp_to_approx_dt'] = lambda L, s: L.fns.time_step.interp_to_approx_dt(s, 0.04).values
    T['stockwell_of_values'] = lambda L, s: L.stockwell.transform(s.values)
    T['surface_energy'] = lambda L, s: L.surface.calc_surface_energy(s, np.array([0.05, 0.2]), trim=True)
    T['remove_poly_fn_of_values'] = lambda L, s: L.fns.generic.remove_poly(s.values, 1)
    T['join_values_w_shifts_of_values'] = lambda L, s: L.fns.time_shift.join_values_w_shifts(s.values, np.array([1, 2]))
    T['step_fn_error_of_displacement'] = lambda L, s: L.fns.average.calc_step_fn_vals_error(s.displacement, pow=2)
    T['cyc_amp_of_values'] = lambda L, s: L.im.calc_cyc_amp_array_w_power_law(s.values, 2.0, 1.0)
    return T


# observables without max/abs atoms: used for the functions whose control flow depends on the values (each branch
# feasibility check otherwise carries the definitional constraints of every spectral maximum)
OBS_LIGHT = ['values', 'time', 'velocity', 'displacement', 'fa_spectrum', 'fa_freqs', 'response_times', 'smooth_fa_freqs', 'npts', 'dt']
BRANCHY = ('calc_brac_dur', 'calc_sig_dur', 'peaks_only_delta_of_values', 'pseudo_cyclic_of_values', 'peaks_only_delta_of_velocity',
           'switched_peaks_of_object', 'zero_crossings_of_displacement', 'n_cyc_of_values', 'cyc_amp_of_values', 'max_fa_period',
           'step_fn_error_of_displacement')


def _observe_all(sig, names=OBS):
    out = {}
    for o in names:
        out[o] = _flat(getattr(sig, o))
    return out


def object_pure(ctx, fname, n=6):
    """every observable of the object (record, time, cached velocity/displacement/spectra/peaks/settings) is the same
    after an analysis function ran on the object or on the arrays it hands out, the function returns the same result when
    called again, and the object still agrees with a freshly constructed one."""
    lib = ctx.lib
    a = ctx.arr('a', n, -10.0, 10.0)
    if 'cyc_amp' in fname:
        ctx.assume(S.sym_and(*[a[j] != 0 for j in range(n)]))
    mk = lambda: lib.AccSignal(a, DT, smooth_fa_freqs=np.array([0.7, 1.3, 2.4]), response_times=np.array([0.3, 0.9]))
    sig = mk()
    names = OBS_LIGHT if fname in BRANCHY else OBS
    before = _observe_all(sig, names)             # this also fills the caches
    f = _obj_table()[fname]
    r1 = _flat(f(lib, sig))
    after = _observe_all(sig, names)
    r2 = _flat(f(lib, sig))
    after2 = _observe_all(sig, names)
    fresh = _observe_all(mk(), names)

    def same(x, y):
        if len(x) != len(y):
            return False
        good = []
        for u, v in zip(x, y):
            if isinstance(u, (str, type(None))) or isinstance(v, (str, type(None))):
                good.append(u == v)
            elif not S.is_sym(u) and not S.is_sym(v) and not isinstance(u, complex) and (np.isinf(u) or np.isinf(v)):
                good.append(bool(u == v))          # e.g. the period of the zero-frequency bin
            else:
                good.append(ctx.eq(u, v))
        return S.sym_and(*good)
    for o in names:
        ctx.claim('object_observable_unchanged:' + o, S.sym_and(same(before[o], after[o]), same(before[o], after2[o]),
                                                               same(fresh[o], after2[o])), fname)
    ctx.claim('same_result_when_called_again', same(r1, r2), fname)


SCENARIOS = {'ownership': ownership, 'pure': pure, 'object_pure': object_pure}
SELFTEST_PER_SCENARIO = 60
SELFTEST_NVEC = 1


def obligations(tier, seed):
    q = tier == 'quick'
    n = 8 if q else 12
    muts = list(_mutators(None, n).keys())
    for mut in muts:
        for via in ('ctor', 'reset'):
            yield Ob('ownership', {'mut': mut, 'via': via, 'cls': 'AccSignal', 'n': n}, query_ms=30000, timeout_s=600)
            if mut in SIGNAL_ONLY and via == 'reset':
                yield Ob('ownership', {'mut': mut, 'via': via, 'cls': 'Signal', 'n': n}, query_ms=30000, timeout_s=600)
    for fname in _pure_table():
        nn = 4 if q else 6
        if fname in ('cyc_amp_gm', 'cyc_amp_combined'):
            nn = 2 if q else 3       # two records fork independently
        elif fname in ('n_cyc_power_law', 'cyc_amp_power_law', 'get_switched_peaks'):
            nn = 4
        yield Ob('pure', {'fname': fname, 'n': nn}, query_ms=30000, timeout_s=600)
    for fname in _obj_table():
        # value-dependent control flow doubles the path count per sample: n = 8 ran out of its 600 s budget for the switched
        # peaks / power-law amplitude in the end-to-end thorough run, n = 6 is what the thorough tier claims for those
        yield Ob('object_pure', {'fname': fname, 'n': 5 if q else (6 if fname in BRANCHY else 8)}, query_ms=30000, timeout_s=900)
