"""C17 - Butterworth filtering is zero-phase with the analytic gain; detrending is exact."""
import math
from fractions import Fraction
from vf.harness import Ob
from vf.engine import scalars as S

PROP = 'C17'

META = {
    'functions_encoded': ['Signal.butter_pass (container test, type selection, normalised cut-off, Gibbs padding s_len/f_len, '
                          'fill values, final slice)', 'Signal.remove_poly', 'eqsig.fns.generic.remove_poly', 'Signal.remove_average',
                          'add_constant / add_series / add_signal (and their three rejections)', 'Signal.running_average'],
    'stubs': ['scipy.signal.filtfilt: direct-form-II-transposed recurrence + SciPy odd extension and lfilter_zi initial '
              'state, coefficients from the REAL scipy.signal.butter (exact rationals, rounded to 320-bit dyadics when they '
              'grow)', 'np.polyfit: exact rational least squares through the normal equations'],
    'bounds': {'quick': 'linearity/length: fully symbolic records n=40, filter type x order 1..4 x remove_gibbs in '
                        '{None,start,end,mid} (thinned) x cut-off container {list,tuple,ndarray}; gain clause: n=240 (low/high pass) or n=800 (band pass, whose 2 Hz corner rings longer) sinusoid '
                        'with symbolic amplitude pair (A,B), dt in {0.01,0.03}, frequencies in pass/transition/stop bands; '
                        'poly degree 0..4 with n<=8; running-average widths 1..7 with n<=8',
               'thorough': 'gain clause n=400; widths 1..25 with n=30; more filter settings'},
    'outside': ["SciPy's compiled lfilter and the butter design themselves", 'the "much longer than the longest cut-off '
                'period" regime is represented by the stated n/cut-off pairs only', 'rounding', 'remove_rolling_average '
                '(covered for staleness in C04)'],
    'assumptions': ['gain tolerance 1e-3*(|A|+|B|) over the middle third of the record'],
}


def _gain2(f, dt, order, lo, hi):
    """squared magnitude of the digital Butterworth filter designed by the bilinear transform."""
    t = math.tan(math.pi * f * dt)
    if lo is None:
        tc = math.tan(math.pi * hi * dt)
        return 1.0 / (1.0 + (t / tc) ** (2 * order))
    if hi is None:
        tc = math.tan(math.pi * lo * dt)
        return 1.0 / (1.0 + (tc / t) ** (2 * order))
    t1 = math.tan(math.pi * lo * dt)
    t2 = math.tan(math.pi * hi * dt)
    om = (t * t - t1 * t2) / (t * (t2 - t1))
    return 1.0 / (1.0 + om ** (2 * order))


def _cut(ctx, lo, hi, kind):
    if kind == 'list':
        return [lo, hi]
    if kind == 'tuple':
        return (lo, hi)
    return ctx.np.array([lo, hi]) if (lo is not None and hi is not None) else ctx.np.array([lo, hi], dtype=object)


def filter_linear(ctx, n, lo, hi, order, gibbs, kind='tuple', dt=0.01):
    lib = ctx.lib
    a = ctx.arr('a', n, -10.0, 10.0)
    b = ctx.arr('b', n, -10.0, 10.0)
    al = 2.5
    kw = {'filter_order': order}
    if gibbs is not None:
        kw['remove_gibbs'] = gibbs
    outs = []
    cut = _cut(ctx, lo, hi, kind)          # one container object, reused for every call as a caller would
    before = [x for x in cut]
    for rec in (a, b, al * a - b):
        sig = lib.Signal(rec, dt)
        sig.butter_pass(cut, **kw)
        outs.append(sig)
    ctx.claim('cut_off_container_not_modified', all((x is None and y is None) or (x is not None and y is not None and
                                                     float(x) == float(y)) for x, y in zip(before, [x for x in cut])),
              [x for x in cut])
    ya, yb, yc = [s_.values for s_ in outs]
    ctx.observe('ya_mid', ya[n // 2])
    ctx.claim('length_preserved', len(ya) == n and outs[0].npts == n, (len(ya), outs[0].npts))
    ctx.claim('time_step_preserved', outs[0].dt == dt)
    if len(ya) != n:
        return
    vars_ = list(a) + list(b)
    ctx.claim('linear', S.sym_and(*[ctx.abs_lin_le(yc[i] - (al * ya[i] - yb[i]), [1e-9] * (2 * n), vars_) for i in range(n)]))


def filter_gain(ctx, n, lo, hi, order, f, gibbs=None, dt=0.01):
    lib = ctx.lib
    A = ctx.real('A', -10.0, 10.0)
    B = ctx.real('B', -10.0, 10.0)
    xs = [A * math.cos(2 * math.pi * f * i * dt) + B * math.sin(2 * math.pi * f * i * dt) for i in range(n)]
    sig = lib.Signal(ctx.np.array(xs), dt)
    kw = {'filter_order': order}
    if gibbs is not None:
        kw['remove_gibbs'] = gibbs
    sig.butter_pass((lo, hi), **kw)
    y = sig.values
    ctx.observe('y_mid', y[n // 2])
    ctx.claim('length_preserved', len(y) == n, len(y))
    g = _gain2(f, dt, order, lo, hi)
    ctx.claim('zero_phase_with_squared_butterworth_gain',
              S.sym_and(*[ctx.abs_lin_le(y[i] - g * xs[i], [1e-3, 1e-3], [A, B]) for i in range(n // 3, 2 * n // 3)]), g)


def detrend(ctx, n, k, level='object'):
    lib = ctx.lib
    v = ctx.arr('v', n, -100.0, 100.0)
    coefs = [ctx.real('c%d' % j, -10.0, 10.0) for j in range(k + 1)]
    xs = [i / float(n - 1) for i in range(n)]

    def run(values):
        if level == 'object':
            s_ = lib.Signal(values, 0.01)
            s_.remove_poly(poly_fit=k)
            return s_.values
        return lib.fns.generic.remove_poly(values, poly_fit=k)
    r = run(v)
    ctx.observe('r', r)
    ctx.claim('length', len(r) == n, len(r))
    vl = list(v)
    tol = [1e-9] * n
    # (values - result) is a polynomial of degree <= k on the uniform grid: its (k+1)-th finite difference vanishes
    d = [vl[i] - r[i] for i in range(n)]
    for _ in range(k + 1):
        d = [d[i + 1] - d[i] for i in range(len(d) - 1)]
    ctx.claim('subtracts_one_polynomial_of_degree_le_k', S.sym_and(*[ctx.abs_lin_le(x, tol, vl) for x in d]) if d else True)
    # residual is orthogonal to 1, x, .., x^k
    orth = []
    for j in range(k + 1):
        tot = 0.0
        for i in range(n):
            tot = tot + r[i] * (xs[i] ** j)
        orth.append(ctx.abs_lin_le(tot, tol, vl))
    ctx.claim('residual_has_zero_best_fit_polynomial', S.sym_and(*orth))
    r2 = run(ctx.np.array(list(r)))
    ctx.claim('idempotent', S.sym_and(*[ctx.abs_lin_le(r2[i] - r[i], tol, vl) for i in range(n)]))
    shifted = ctx.np.array([vl[i] + sum(coefs[j] * (xs[i] ** j) for j in range(k + 1)) for i in range(n)])
    r3 = run(shifted)
    ctx.claim('unaffected_by_adding_a_polynomial_of_degree_le_k',
              S.sym_and(*[ctx.abs_lin_le(r3[i] - r[i], [1e-9] * (n + k + 1), vl + coefs) for i in range(n)]))
    if k == 0 and level == 'object':
        s_ = lib.Signal(v, 0.01)
        s_.remove_average(section=n)
        ra = s_.values
        ctx.claim('remove_average_equals_degree_0_detrend', S.sym_and(*[ctx.abs_lin_le(ra[i] - r[i], tol, vl) for i in range(n)]))


def adders(ctx, n):
    lib = ctx.lib
    E = lib.exceptions.SignalProcessingError
    v = ctx.arr('v', n, -100.0, 100.0)
    w = ctx.arr('w', n, -100.0, 100.0)
    c = ctx.real('c', -100.0, 100.0)
    s1 = lib.Signal(v, 0.01)
    s1.add_constant(c)
    ctx.claim('add_constant_elementwise', S.sym_and(len(s1.values) == n, *[ctx.eq(s1.values[i], v[i] + c, 1e3) for i in range(n)]))
    s2 = lib.Signal(v, 0.01)
    s2.add_series(w)
    ctx.claim('add_series_elementwise', S.sym_and(*[ctx.eq(s2.values[i], v[i] + w[i], 1e3) for i in range(n)]))
    s3 = lib.Signal(v, 0.01)
    s3.add_signal(lib.Signal(w, 0.01))
    ctx.claim('add_signal_elementwise', S.sym_and(*[ctx.eq(s3.values[i], v[i] + w[i], 1e3) for i in range(n)]))
    rej = []
    wl = list(w)
    bads = [lambda: lib.Signal(v, 0.01).add_series(wl[:-1]),
            lambda: lib.Signal(v, 0.01).add_signal(lib.Signal(w, 0.02)),
            lambda: lib.Signal(v, 0.01).add_signal(wl),
            # every other length is a mismatch too: longer, length 1 (NumPy would broadcast it), empty, and a
            # length-1 record receiving a longer series; list, tuple and array operands
            lambda: lib.Signal(v, 0.01).add_series(wl + [c]),
            lambda: lib.Signal(v, 0.01).add_series(ctx.np.array(wl + [c])),
            lambda: lib.Signal(v, 0.01).add_series(tuple(wl[:-1])),
            lambda: lib.Signal(v, 0.01).add_signal(lib.Signal(ctx.np.array(wl + [c]), 0.01))]
    if n >= 2:
        bads += [lambda: lib.Signal(ctx.np.array(wl[:1]), 0.01).add_series(wl[:2]),
                 lambda: lib.Signal(ctx.np.array(wl[:1]), 0.01).add_signal(lib.Signal(v, 0.01)),
                 lambda: lib.Signal(v, 0.01).add_series(wl[:1]),
                 lambda: lib.Signal(v, 0.01).add_series(ctx.np.array(wl[:1])),
                 lambda: lib.Signal(v, 0.01).add_signal(lib.Signal(ctx.np.array(wl[:1]), 0.01)),
                 lambda: lib.Signal(v, 0.01).add_series([])]
    for bad in bads:
        try:
            bad()
            rej.append(False)
        except E:
            rej.append(True)
    ctx.claim('rejects_mismatched_length_step_and_non_signal', all(rej), rej)


def running(ctx, n, width):
    lib = ctx.lib
    v = ctx.arr('v', n, -100.0, 100.0)
    vl = [x + 0.0 for x in v]
    sig = lib.Signal(v, 0.01)
    sig.running_average(width)
    out = sig.values
    ctx.observe('out', out)
    ctx.claim('length', len(out) == n, len(out))
    h = width // 2
    good = []
    for i in range(n):
        js = [j for j in range(n) if abs(j - i) <= h]
        tot = 0.0
        for j in js:
            tot = tot + vl[j]
        good.append(ctx.abs_lin_le(out[i] - tot / len(js), [1e-9] * n, vl))
    ctx.claim('mean_of_original_samples_within_half_width', S.sym_and(*good))
    ctx.claim('callers_array_untouched', S.sym_and(*[ctx.eq(v[i], vl[i]) for i in range(n)]))


SCENARIOS = {'filter_linear': filter_linear, 'filter_gain': filter_gain, 'detrend': detrend, 'adders': adders,
             'running': running}
SELFTEST_PER_SCENARIO = 2
SELFTEST_NVEC = 2


def obligations(tier, seed):
    q = tier == 'quick'
    bands = [(0.5, 5.0), (None, 8.0), (2.0, None)]
    i = 0
    for lo, hi in bands:
        for order in (1, 2, 3, 4):
            for gibbs in (None, 'start', 'end', 'mid'):
                i += 1
                if q and i % 3:
                    continue
                kind = ['list', 'tuple', 'ndarray'][i % 3]
                yield Ob('filter_linear', {'n': 40, 'lo': lo, 'hi': hi, 'order': order, 'gibbs': gibbs, 'kind': kind},
                         query_ms=60000, timeout_s=900)
    for kind in ('list', 'tuple', 'ndarray'):
        yield Ob('filter_linear', {'n': 40, 'lo': 1.0, 'hi': 10.0, 'order': 2, 'gibbs': None, 'kind': kind}, timeout_s=900)
    # odd and even lengths for every padding mode (the split of the pad between both ends depends on the parity), incl. the
    # value 0 that Cluster.combine_motions passes
    for nn in (41, 37, 40):
        for gibbs in ('start', 'end', 'mid', 0):
            yield Ob('filter_linear', {'n': nn, 'lo': 0.5, 'hi': 5.0, 'order': 2, 'gibbs': gibbs, 'kind': 'tuple'}, query_ms=60000,
                     timeout_s=900)
    yield Ob('filter_linear', {'n': 41, 'lo': None, 'hi': 8.0, 'order': 3, 'gibbs': 'mid', 'kind': 'list'}, query_ms=60000, timeout_s=900)
    n = 240 if q else 400
    for dt in (0.01, 0.03):
        sc = 0.01 / dt
        for (lo, hi), freqs in (((2.0 * sc, 10.0 * sc), [1.0, 2.0, 5.0, 10.0, 14.0]), ((None, 8.0 * sc), [2.0, 8.0, 12.0]),
                                ((4.0 * sc, None), [2.5, 4.0, 9.0])):
            for order in ((2, 4) if q else (1, 2, 3, 4)):
                for f in freqs:
                    # the 2 Hz band corner rings for a long time: the band filter needs the longer record
                    yield Ob('filter_gain', {'n': 800 if lo is not None and hi is not None else n, 'lo': lo, 'hi': hi,
                                             'order': order, 'f': f * sc, 'dt': dt},
                             query_ms=60000, timeout_s=900)
    yield Ob('filter_gain', {'n': 800, 'lo': 2.0, 'hi': 10.0, 'order': 4, 'f': 5.0, 'gibbs': 'mid'}, timeout_s=900)
    yield Ob('filter_gain', {'n': n, 'lo': None, 'hi': 8.0, 'order': 2, 'f': 3.0, 'gibbs': 'end'}, timeout_s=900)
    for k in range(5):
        for n_ in ((k + 2, 8) if q else (k + 2, 6, 8, 12)):
            for level in ('object', 'array'):
                if n_ > k:
                    yield Ob('detrend', {'n': n_, 'k': k, 'level': level}, query_ms=60000)
    for n in (1, 2, 4):
        yield Ob('adders', {'n': n})
    for n_, widths in (((8, range(1, 8)), (5, (1, 3, 4, 6))) if q else ((8, range(1, 8)), (30, range(1, 26)))):
        for w in widths:
            yield Ob('running', {'n': n_, 'width': w})
