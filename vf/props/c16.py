"""C16 - Saved signals load back unchanged (to the format's precision)."""
import os
import shutil
import tempfile
from fractions import Fraction
from vf.harness import Ob
from vf.engine import scalars as S

PROP = 'C16'

META = {
    'functions_encoded': ['eqsig.loader.save_values_and_dt', 'save_signal', 'load_values_and_dt (incl. the lines that recover dt '
                          'from the sanitised column name)', 'load_signal(astype)', 'load_sig(m)', 'load_asig(load_label, m)'],
    'stubs': ['np.genfromtxt(skip_header, delimiter, names=True, usecols): documented behaviour (header line -> field name '
              'through NameValidator: blanks -> "_", delete ~!@#$%^&*()-=+~\\|]}[{\';: /?.>,< ; one data row -> 0-d array)',
              'str % formatting and the OS file layer run for REAL on concrete sentinel doubles; read back, a numeric token '
              'is a fresh real within half a unit of its last WRITTEN digit of the symbolic value (contract of correctly '
              'rounded decimal formatting), and the dt text is re-evaluated positionally over symbolic digits'],
    'bounds': {'quick': 'record length 1..4; every value symbolic inside an enumerated sign/decade class {0, tiny, [0.01,0.1), '
                        '[0.1,1), [1,10), -[1,10), [1e4,1e5), -[1e8,1e9)}; dt = symbolic decimal digits (1 or 2 integer '
                        'digits, 4 fraction digits, 1e-4 <= dt <= 99.9999) and dt = 100; m in {1,-2.5,9.81}; labels {"m1", '
                        '"my label"}; all loader entry points',
               'thorough': 'same with more class patterns'},
    'outside': ['the OS file layer, strtod/printf themselves', 'labels containing newlines', 'load_3_comp_values_and_dt_from_v2a',
                'string-level control flow is followed for the enumerated digit-count/sign/decade structures; digit and '
                'number VALUES are symbolic'],
    'assumptions': ['dt has at most 4 decimals (so that "%.4f" is exact); the property asks for dt to 4 decimals'],
}

CLASSES = {
    'zero': (0.0, 0.0, 0.0),
    'tiny': (4.4e-7, 1e-7, 4.9e-7),
    'c-2': (0.0123456789, 0.01, 0.0999),
    'c-1': (0.1234567891, 0.1, 0.999),
    'c0': (3.141592653, 1.0, 9.999),
    'n0': (-2.718281828, -9.999, -1.0),
    'c4': (98765.432115, 1.0e4, 9.9999e4),
    'n8': (-123456789.123456, -9.9999e8, -1.0e8),
}
DT_TEXT = {1: '7.6509', 2: '87.6509'}


def roundtrip(ctx, pattern, kdt, entry, m=1.0, label='m1'):
    lib = ctx.lib
    n = len(pattern)
    sym = ctx.symbolic
    if sym:
        from vf.engine import textio
        textio.reset()
    # ---- dt -----------------------------------------------------------------------------------------
    if kdt == 0:
        dt = 100.0
    else:
        idig = [ctx.integer('I%d' % j, 0, 9) for j in range(kdt)]
        fdig = [ctx.integer('F%d' % j, 0, 9) for j in range(1, 5)]
        if kdt > 1:
            ctx.assume(idig[0] >= 1)
        dt = 0.0
        for j, d in enumerate(idig):
            dt = dt + d * (10 ** (kdt - 1 - j))
        for j, d in enumerate(fdig):
            dt = dt + d * Fraction(1, 10 ** (j + 1)) if sym else dt + d / float(10 ** (j + 1))
        ctx.assume(dt >= 1e-4)
        if sym:
            text = DT_TEXT[kdt]
            chars = [c for c in text if c != '.']
            textio.register_dt(dt, text, dict(zip(chars, idig + fdig)))
        else:
            dt = float('%s.%s' % (''.join(str(d) for d in idig), ''.join(str(d) for d in fdig)))
    # ---- values -------------------------------------------------------------------------------------
    vals = []
    for i, cl in enumerate(pattern):
        sent, lo, hi = CLASSES[cl]
        if cl == 'zero':
            vals.append(0.0)
            if sym:
                textio.register_value(0.0, 0.0)
            continue
        v = ctx.real('v[%d]' % i, lo, hi)
        if sym:
            textio.register_value(v, sent)
        vals.append(v)
    tmp = tempfile.mkdtemp(prefix='vf_c16_')
    try:
        ffp = os.path.join(tmp, 'rec.txt')
        sig = lib.AccSignal(ctx.np.array(vals), dt, label=label)
        lib.save_signal(ffp, sig)
        want_type = None
        got_label = None
        if entry == 'values':
            out, dt2 = lib.load_values_and_dt(ffp)
        elif entry in ('signal', 'acc_sig', 'default'):
            obj = lib.load_signal(ffp) if entry == 'default' else lib.load_signal(ffp, astype=entry)
            want_type = lib.AccSignal if entry == 'acc_sig' else lib.Signal
            ctx.claim('requested_object_type_returned', isinstance(obj, want_type) and
                      (entry == 'acc_sig' or not isinstance(obj, lib.AccSignal)), type(obj).__name__)
            if not isinstance(obj, lib.Signal):
                return
            out, dt2 = obj.values, obj.dt
        elif entry == 'sig':
            obj = lib.load_sig(ffp, m=m)
            ctx.claim('requested_object_type_returned', isinstance(obj, lib.Signal) and not isinstance(obj, lib.AccSignal))
            out, dt2 = obj.values, obj.dt
        else:
            obj = lib.load_asig(ffp, load_label=(entry == 'asig_label'), m=m)
            ctx.claim('requested_object_type_returned', isinstance(obj, lib.AccSignal))
            out, dt2 = obj.values, obj.dt
            if entry == 'asig_label':
                ctx.claim('label_round_trips', obj.label == label, obj.label)
    finally:
        shutil.rmtree(tmp, ignore_errors=True)
    mm = m if entry in ('sig', 'asig', 'asig_label') else 1.0
    shape = getattr(out, 'shape', None)
    ctx.observe('dt', dt2)
    ok_n = shape is not None and len(shape) == 1 and shape[0] == n
    ctx.claim('same_number_of_points', ok_n, shape)
    ctx.claim('time_step_to_4_decimals', S.sym_and(dt2 - dt <= 5e-5, dt - dt2 <= 5e-5))
    if ok_n:
        good = []
        for i in range(n):
            slack = 5e-7 * abs(mm) * (1 + 1e-9) + 1e-12 * (abs(float(CLASSES[pattern[i]][0])) * abs(mm))
            d = out[i] - mm * vals[i]
            good.append(S.sym_and(d <= slack, d >= -slack))
        ctx.claim('values_to_6_decimals', S.sym_and(*good))


SCENARIOS = {'roundtrip': roundtrip}
SELFTEST_PER_SCENARIO = 6
SELFTEST_NVEC = 3


def obligations(tier, seed):
    q = tier == 'quick'
    patterns = [['c-1'], ['c0', 'n0'], ['zero', 'tiny', 'c-2'], ['c4', 'n8', 'c-1', 'c0'], ['n0', 'c4']]
    if not q:
        patterns += [['tiny'], ['n8', 'n8', 'zero'], ['c-2', 'c-1', 'c0', 'c4']]
    entries = ['values', 'signal', 'acc_sig', 'default', 'sig', 'asig', 'asig_label']
    i = 0
    for pat in patterns:
        for kdt in (1, 2, 0):
            for e in entries:
                i += 1
                if q and len(pat) != 2 and (i % 3) and kdt != 1:
                    continue
                m = [1.0, -2.5, 9.81][i % 3] if e in ('sig', 'asig', 'asig_label') else 1.0
                label = 'my label' if i % 2 else 'm1'
                yield Ob('roundtrip', {'pattern': pat, 'kdt': kdt, 'entry': e, 'm': m, 'label': label}, query_ms=30000)
