"""C19 - Surface-energy and time-shift utilities match the shifted-wave definition."""
import math
from vf.harness import Ob
from vf.engine import scalars as S

PROP = 'C19'

META = {
    'functions_encoded': ['eqsig.surface.calc_surface_energy', 'trim_to_length', 'calc_cum_abs_surface_energy',
                          'get_time_shift_motions', 'eqsig.fns.time_shift.put_array_in_2d_array', 'join_values_w_shifts',
                          'join_sig_w_time_shift', 'scipy.integrate.cumulative_trapezoid(axis=1) (real code)'],
    'stubs': ['np.interp(left=0, right=0) (piecewise linear, zero outside)'],
    'bounds': {'quick': 'record n in 3..6 symbolic; dt in {0.1,0.01}; travel-time sets {0},{dt/2},{0.37dt},{dt,2.5dt},'
                        '{0,dt/2,3dt} (scalar / 1-element / list); scalar reductions symbolic, per-row reductions symbolic; '
                        'nodal x (trim,start) in {(F,F),(T,F),(T,T)}; stt in {0,3dt,3.4dt}; shift vectors from {-3..3}^(1..3); '
                        'clip in {none,start,end,both}; jtype add/sub',
               'thorough': 'n up to 10, more travel-time sets and shift vectors'},
    'outside': ['symbolic travel times (they determine array shapes)', '(trim=False, start=True): only the alignment relation '
                'to the untrimmed series is checked, not its total length', 'rounding'],
    'assumptions': [],
}


def _delayed(vals, s):
    """record delayed by s samples (fractional: linear interpolation), zero outside: value at index j."""
    n = len(vals)

    def at(j):
        x = j - s
        if x < 0 or x > n - 1:
            return 0.0
        lo = int(math.floor(x))
        if lo >= n - 1:
            return vals[n - 1]
        t = x - lo
        if t == 0:
            return vals[lo]
        return vals[lo] + (vals[lo + 1] - vals[lo]) * t
    return at


def _oracle_acc(vals, dt, tt, nodal, up_red, down_red):
    n = len(vals)
    shifts = [2 * t / dt for t in tt]
    mx = int(max(shifts))
    rows = []
    for r, s in enumerate(shifts):
        d = _delayed(vals, s)
        ur = up_red[r] if isinstance(up_red, (list, tuple)) else up_red
        dr = down_red[r] if isinstance(down_red, (list, tuple)) else down_red
        row = []
        for j in range(n + mx):
            up = (vals[j] if j < n else 0.0) * ur
            dn = d(j) * dr
            row.append(up - dn if nodal else up + dn)
        rows.append(row)
    return rows


def _integrate(row, dt):
    v = [0.0]
    for j in range(1, len(row)):
        v.append(v[-1] + dt * (row[j] + row[j - 1]) / 2.0)
    return v


def _trim(rows, n, tt, dt, trim, start, stt):
    if not start:
        if not trim:
            return rows
        return [r[:n] for r in rows]
    out = []
    s0 = int(stt / dt)
    all_sis = [s0 - int(t / dt) for t in tt]
    # untrimmed with a common start time: every row keeps its whole length behind the largest front padding
    length = n if trim else n + max(max(all_sis), 0)
    for r, sis in zip(rows, all_sis):
        o = []
        for j in range(length):
            k = j - sis
            o.append(r[k] if 0 <= k < len(r) else 0.0)
        out.append(o)
    return out


def _rows(res, k):
    if k == 1:
        return [list(res)]
    return [list(res[i]) for i in range(k)]


def surface(ctx, n, dt, tts, nodal, trim, start, stt_steps=0.0, red='scalar', form='list'):
    lib = ctx.lib
    a = ctx.arr('a', n, -10.0, 10.0)
    vals = list(a)
    tt = [x * dt for x in tts]
    k = len(tt)
    if red == 'scalar':
        ur = ctx.real('up_red', 0.1, 2.0)
        dr = ctx.real('down_red', 0.1, 2.0)
        ur_arg, dr_arg, ur_o, dr_o = ur, dr, ur, dr
    elif red == 'rows':
        ur_o = [ctx.real('up_red[%d]' % i, 0.1, 2.0) for i in range(k)]
        dr_o = [ctx.real('down_red[%d]' % i, 0.1, 2.0) for i in range(k)]
        ur_arg, dr_arg = ctx.np.array(ur_o), ctx.np.array(dr_o)
    else:
        ur_arg = dr_arg = 1.0
        ur_o = dr_o = 1.0
    if form == 'scalar':
        tt_arg = tt[0]
    elif form == 'array':
        tt_arg = ctx.np.array(tt)
    else:
        tt_arg = list(tt)
    stt = stt_steps * dt
    asig = lib.AccSignal(a, dt)
    e = lib.surface.calc_surface_energy(asig, tt_arg, nodal=nodal, up_red=ur_arg, down_red=dr_arg, stt=stt, trim=trim,
                                        start=start)
    acc = lib.surface.get_time_shift_motions(asig, tt_arg, nodal=nodal, up_red=ur_arg, down_red=dr_arg, stt=stt,
                                             trim=trim, start=start)
    ctx.observe('e', e)
    if red == 'rows':
        # the same argument objects are used for the next call (as a caller computing energy and then cumulative energy for
        # one profile does): they must not have been written to, and the second call must give the same rows
        ctx.claim('reduction_factor_and_travel_time_arguments_unchanged',
                  S.sym_and(*([ctx.eq(ur_arg[i], ur_o[i], 10.0) for i in range(k)] + [ctx.eq(dr_arg[i], dr_o[i], 10.0) for i in range(k)] +
                              ([ctx.eq(tt_arg[i], tt[i], 10.0) for i in range(k)] if form != 'scalar' else []))))
        e_again = lib.surface.calc_surface_energy(asig, tt_arg, nodal=nodal, up_red=ur_arg, down_red=dr_arg, stt=stt, trim=trim,
                                                  start=start)
        r1, r2 = _rows(e, k), _rows(e_again, k)
        ctx.claim('same_rows_when_called_again_with_the_same_argument_objects',
                  S.sym_and(len(r1) == len(r2), *[ctx.eq(x, y, 1e3 * (n + 8) ** 2) for p_, q_ in zip(r1, r2) for x, y in zip(p_, q_)]))
    full_acc = _oracle_acc(vals, dt, tt, nodal, ur_o, dr_o)
    full_e = []
    for row in full_acc:
        v = _integrate(row, dt)
        full_e.append([0.5 * x * S.sym_abs(x) for x in v])
    want_e = _trim(full_e, n, tt, dt, trim, start, stt)
    want_a = _trim(full_acc, n, tt, dt, trim, start, stt)
    if want_e is None:
        return
    got_e = _rows(e, k)
    got_a = _rows(acc, k)
    sc = 1e3 * (n + 8) ** 2
    ctx.claim('energy_shape', len(got_e) == k and all(len(r) == len(w) for r, w in zip(got_e, want_e)),
              ([len(r) for r in got_e], [len(w) for w in want_e]))
    if trim:
        ctx.claim('trimmed_length_is_npts', all(len(r) == n for r in got_e))
    if not (len(got_e) == k and all(len(r) == len(w) for r, w in zip(got_e, want_e))):
        return
    ctx.claim('pre_integration_series_is_up_wave_minus_or_plus_delayed_wave',
              S.sym_and(*[ctx.eq(got_a[r][j], want_a[r][j], 1e3) for r in range(k) for j in range(len(want_a[r]))]))
    ctx.claim('energy_is_half_v_abs_v_of_integrated_series',
              S.sym_and(*[ctx.eq(got_e[r][j], want_e[r][j], sc) for r in range(k) for j in range(len(want_e[r]))]))
    if k > 1:
        ok = []
        for r in range(k):
            ur1 = ur_o[r] if isinstance(ur_o, list) else ur_o
            dr1 = dr_o[r] if isinstance(dr_o, list) else dr_o
            if red == 'rows':
                continue
            single = lib.surface.calc_surface_energy(asig, tt[r], nodal=nodal, up_red=ur1, down_red=dr1, stt=stt,
                                                     trim=True, start=start)
            if trim:
                ok.extend(ctx.eq(got_e[r][j], single[j], sc) for j in range(n))
        if ok:
            ctx.claim('batch_row_equals_single_travel_time', S.sym_and(*ok))


def cumulative(ctx, n, dt, tts, nodal, alpha=-2.5):
    lib = ctx.lib
    a = ctx.arr('a', n, -10.0, 10.0)
    tt = [x * dt for x in tts]
    k = len(tt)
    asig = lib.AccSignal(a, dt)
    c = lib.surface.calc_cum_abs_surface_energy(asig, list(tt), nodal=nodal, trim=True)
    rows = _rows(c, k)
    ctx.observe('c', c)
    ctx.claim('non_decreasing', S.sym_and(*[rows[r][j] - rows[r][j - 1] >= 0 for r in range(k) for j in range(1, n)]))
    ctx.claim('non_negative_start', S.sym_and(*[rows[r][0] >= 0 for r in range(k)]))
    sc = 1e3 * (n + 8) ** 2
    for r, t in enumerate(tt):
        if t == 0 and nodal:
            ctx.claim('zero_for_zero_travel_time_at_nodal_surface', S.sym_and(*[ctx.eq(rows[r][j], 0.0, sc) for j in range(n)]))
    c2 = lib.surface.calc_cum_abs_surface_energy(lib.AccSignal(alpha * a, dt), list(tt), nodal=nodal, trim=True)
    r2 = _rows(c2, k)
    ctx.claim('scales_with_alpha_squared',
              S.sym_and(*[ctx.eq(r2[r][j], alpha * alpha * rows[r][j], sc * 10) for r in range(k) for j in range(n)]))
    if k > 1:
        ok = []
        for r in range(k):
            s1 = lib.surface.calc_cum_abs_surface_energy(asig, [tt[r]], nodal=nodal, trim=True)
            ok.extend(ctx.eq(rows[r][j], s1[j], sc) for j in range(n))
        ctx.claim('batch_row_equals_single_travel_time', S.sym_and(*ok))


def put_array(ctx, n, shifts, clip):
    v = ctx.arr('v', n, -10.0, 10.0)
    out = ctx.lib.fns.time_shift.put_array_in_2d_array(v, ctx.np.array(shifts), clip=clip)
    ctx.observe('out', out)
    end_x = max(max(shifts), 0)
    start_x = -min(min(shifts), 0)
    width = n + start_x + end_x
    full = []
    for s in shifts:
        row = [0.0] * width
        for j in range(n):
            row[start_x + s + j] = v[j]
        full.append(row)
    lo = start_x if clip in ('start', 'both') else 0
    hi = width - end_x if clip in ('end', 'both') else width
    want = [r[lo:hi] for r in full]
    ok_shape = tuple(out.shape) == (len(shifts), hi - lo)
    ctx.claim('shape', ok_shape, (tuple(out.shape), (len(shifts), hi - lo)))
    if ok_shape:
        ctx.claim('values_at_requested_offsets_zeros_elsewhere',
                  S.sym_and(*[ctx.eq(out[i][j], want[i][j], 10.0) for i in range(len(shifts)) for j in range(hi - lo)]))


def join(ctx, n, shifts, jtype, via_sig=False):
    v = ctx.arr('v', n, -10.0, 10.0)
    lib = ctx.lib
    if via_sig:
        dt = 0.1
        out = lib.fns.time_shift.join_sig_w_time_shift(lib.Signal(v, dt), ctx.np.array([s * dt + 1e-9 for s in shifts]), jtype=jtype)
    else:
        out = lib.fns.time_shift.join_values_w_shifts(v, ctx.np.array(shifts), jtype=jtype)
    ctx.observe('out', out)
    end_x = max(max(shifts), 0)
    start_x = -min(min(shifts), 0)
    width = n + start_x + end_x
    want = []
    for s in shifts:
        row = []
        for j in range(width):
            o = j - start_x
            orig = v[o] if 0 <= o < n else 0.0
            sh = v[o - s] if 0 <= o - s < n else 0.0
            row.append(orig + sh if jtype == 'add' else orig - sh)
        want.append(row)
    ok_shape = tuple(out.shape) == (len(shifts), width)
    ctx.claim('shape', ok_shape, (tuple(out.shape), (len(shifts), width)))
    if ok_shape:
        ctx.claim('shifted_copy_added_or_subtracted_from_zero_padded_original',
                  S.sym_and(*[ctx.eq(out[i][j], want[i][j], 20.0) for i in range(len(shifts)) for j in range(width)]))


SCENARIOS = {'surface': surface, 'cumulative': cumulative, 'put_array': put_array, 'join': join}
SELFTEST_PER_SCENARIO = 4


def obligations(tier, seed):
    q = tier == 'quick'
    n = 5 if q else 8
    tt_sets = [[0.0], [0.5], [0.37], [1.0, 2.5], [0.0, 0.5, 3.0]] + ([] if q else [[0.25, 1.75], [2.0]])
    i = 0
    for dt in (0.1, 0.01):
        for tts in tt_sets:
            for nodal in (True, False):
                for trim, start in ((False, False), (True, False), (True, True), (False, True)):
                    i += 1
                    if q and dt == 0.01 and i % 3:
                        continue
                    stt = [0.0, 3.0, 3.4][i % 3] if start else 0.0
                    red = ['scalar', 'rows', 'none'][i % 3]
                    form = 'list'
                    if len(tts) == 1:
                        form = ['scalar', 'array', 'list'][i % 3]
                        if form == 'scalar' and red == 'rows':
                            red = 'scalar'
                    yield Ob('surface', {'n': n, 'dt': dt, 'tts': tts, 'nodal': nodal, 'trim': trim, 'start': start,
                                         'stt_steps': stt, 'red': red, 'form': form}, query_ms=60000)
    for dt in (0.1, 0.01):
        for tts in tt_sets:
            for nodal in (True, False):
                yield Ob('cumulative', {'n': n, 'dt': dt, 'tts': tts, 'nodal': nodal}, query_ms=60000)
    vecs = [[0], [2], [-2], [1, 2, 3], [-1, 2], [-3, -1], [0, 0], [3, -3, 0], [-2, 0]]
    for sh in vecs:
        for clip in ('none', 'start', 'end', 'both'):
            yield Ob('put_array', {'n': 4, 'shifts': sh, 'clip': clip})
    for sh in ([0], [2], [1, 2, 3], [0, 3]):
        for jt in ('add', 'sub'):
            yield Ob('join', {'n': 4, 'shifts': sh, 'jtype': jt})
    yield Ob('join', {'n': 4, 'shifts': [1, 3], 'jtype': 'add', 'via_sig': True})
    yield Ob('join', {'n': 4, 'shifts': [-1, 2], 'jtype': 'add'})
    yield Ob('join', {'n': 4, 'shifts': [-2, -1], 'jtype': 'sub'})
