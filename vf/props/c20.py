"""C20 - Interpolation, averaging, step-fit and design-spectrum helpers match definitions."""
import math
from vf.harness import Ob
from vf.engine import scalars as S

PROP = 'C20'

META = {
    'functions_encoded': ['eqsig.fns.generic.interp2d', 'interp_left', 'eqsig.fns.average.calc_roll_av_vals',
                          'calc_step_fn_vals_error', 'calc_step_fn_steps_vals', 'eqsig.design_spectra.c_h_factor',
                          'sd_nzs', 't_eff'],
    'stubs': ['np.searchsorted (fork to the insertion index)', 'np.argmin/argmax (fork, first occurrence wins)'],
    'bounds': {'quick': 'interp2d: <=3 nodes x <=2 queries x <=2 columns (3 nodes with 1 query), all symbolic (nodes >=1e-3 apart); '
                        'interp_left <=4 nodes; rolling average n<=6, every window 1..n, 3 modes; step error n<=6, '
                        'p in {1,2} (also integer-dtype series n<=3); design spectra: symbolic T>=0 (T<=10), Z,N,R in (0,5], site classes C,D,E',
               'thorough': 'interp2d <=4 nodes; rolling average n<=9; step error n<=8'},
    'outside': ['non-monotone node sets', 'node spacing below 1e-10 (interp2d clips the denominator there)',
                "the 'dir' option of calc_step_fn_vals_error (not in the statement)"],
    'assumptions': [],
}


def interp2d(ctx, k, m, c):
    np_ = ctx.np
    xf = ctx.arr('xf', k, -10.0, 10.0)
    for i in range(1, k):
        ctx.assume(xf[i] - xf[i - 1] >= 1e-3)
    x = ctx.arr('x', m, -12.0, 12.0)
    f = np_.array([[ctx.real('f[%d,%d]' % (i, j), -10.0, 10.0) for j in range(c)] for i in range(k)])
    out = ctx.lib.fns.generic.interp2d(x, xf, f)
    ctx.observe('out', out)
    ctx.claim('shape', tuple(out.shape) == (m, c), tuple(out.shape))
    if tuple(out.shape) != (m, c):
        return
    sc = 1e4
    for qi in range(m):
        xv = x[qi]
        for j in range(c):
            o = out[qi, j]
            alts = [S.sym_and(xv <= xf[0], ctx.eq(o, f[0, j], 10.0)), S.sym_and(xv >= xf[k - 1], ctx.eq(o, f[k - 1, j], 10.0))]
            for s in range(k - 1):
                dx = xf[s + 1] - xf[s]
                alts.append(S.sym_and(xv >= xf[s], xv <= xf[s + 1],
                                      ctx.eq(o * dx, f[s, j] * dx + (f[s + 1, j] - f[s, j]) * (xv - xf[s]), sc)))
            ctx.claim('linear_interp_with_end_clamping', S.sym_or(*alts), (qi, j))


def interp_left(ctx, k, m, with_y=True):
    x = ctx.arr('x', k, -10.0, 10.0)
    for i in range(1, k):
        ctx.assume(x[i] - x[i - 1] >= 1e-3)
    x0 = ctx.arr('x0', m, -10.0, 12.0)
    for i in range(m):
        ctx.assume(x0[i] >= x[0])
    y = ctx.arr('y', k, -10.0, 10.0) if with_y else None
    out = ctx.lib.fns.generic.interp_left(x0, x, y)
    ctx.observe('out', out)
    ctx.claim('length', len(out) == m, len(out))
    for qi in range(m):
        alts = []
        for s in range(k):
            cond = x[s] <= x0[qi]
            if s + 1 < k:
                cond = S.sym_and(cond, x0[qi] < x[s + 1])
            val = y[s] if with_y else s
            alts.append(S.sym_and(cond, ctx.eq(out[qi], val, 10.0)))
        ctx.claim('value_at_greatest_node_not_exceeding_query', S.sym_or(*alts), qi)
    if m == 1:
        sc = ctx.lib.fns.generic.interp_left(x0[0], x, y)
        ctx.claim('scalar_query_same', ctx.eq(sc, out[0], 10.0))


def roll_av(ctx, n, steps, mode, kind='f'):
    v = ctx.iarr('v', n, -100, 100) if kind == 'i' else ctx.arr('v', n, -100.0, 100.0)
    if mode is None:
        out = ctx.lib.fns.average.calc_roll_av_vals(v, steps)
        mode = 'forward'
    else:
        out = ctx.lib.fns.average.calc_roll_av_vals(v, steps, mode=mode)
    ctx.observe('out', out)
    ctx.claim('length_kept', len(out) == n, len(out))
    if len(out) != n:
        return
    vals = list(v)
    if mode == 'forward':
        ext = vals + [vals[-1]] * (steps - 1)
    elif mode == 'backward':
        ext = [vals[0]] * (steps - 1) + vals
    else:
        s = steps // 2
        e = steps - s - 1
        ext = [vals[0]] * s + vals + [vals[-1]] * e
    good = []
    for i in range(n):
        tot = 0.0
        for j in range(i, i + steps):
            tot = tot + ext[j]
        good.append(ctx.eq(out[i], tot / steps, 100.0))
    ctx.claim('window_mean_with_edge_replication', S.sym_and(*good))
    cst = ctx.real('c', -100.0, 100.0)
    outc = ctx.lib.fns.average.calc_roll_av_vals(ctx.np.array([cst + 0.0 * vals[i] for i in range(n)]), steps, mode=mode)
    ctx.claim('constants_preserved', S.sym_and(*[ctx.eq(outc[i], cst, 100.0) for i in range(n)]))


def _mean(xs):
    tot = 0.0
    for x in xs:
        tot = tot + x
    return tot / len(xs)


def _dev(xs, p):
    m = _mean(xs)
    tot = 0.0
    for x in xs:
        d = x - m
        tot = tot + (S.sym_abs(d) if p == 1 else d * d)
    return tot


def step_error(ctx, n, p, kind='f'):
    v = ctx.iarr('v', n, -100, 100) if kind == 'i' else ctx.arr('v', n, -100.0, 100.0)
    err = ctx.lib.fns.average.calc_step_fn_vals_error(v, pow=p)
    ctx.observe('err', err)
    ctx.claim('length', len(err) == n, len(err))
    vals = list(v)
    sc = 100.0 ** p * n * 4
    good = []
    for i in range(n - 1):
        good.append(ctx.eq(err[i], _dev(vals[:i + 1], p) + _dev(vals[i + 1:], p), sc))
    ctx.claim('split_error_is_sum_of_both_sides', S.sym_and(*good))
    ctx.claim('last_entry_is_single_mean_error', ctx.eq(err[n - 1], _dev(vals, p), sc))


def step_levels(ctx, n, ind):
    v = ctx.arr('v', n, -100.0, 100.0)
    vals = list(v)
    if ind is None:
        pre, post = ctx.lib.fns.average.calc_step_fn_steps_vals(v)
        # the split index chosen is the argmin of the library's own error function (forks); recover it
        return
    pre, post = ctx.lib.fns.average.calc_step_fn_steps_vals(v, ind=ind)
    ctx.observe('levels', [pre, post])
    ctx.claim('levels_are_means_before_and_after_split_sample',
              S.sym_and(ctx.eq(pre, _mean(vals[:ind]), 100.0), ctx.eq(post, _mean(vals[ind + 1:]), 100.0)))


def nzs(ctx, site):
    ds = ctx.lib.design_spectra
    T = ctx.real('T', 0.0, 10.0)
    Z = ctx.real('Z', 0.01, 5.0)
    N = ctx.real('N', 0.01, 5.0)
    R = ctx.real('R', 0.01, 5.0)
    sd = ds.sd_nzs(T, site, Z, R, N)
    ch = ds.c_h_factor([T], site)
    ch0 = ch[0] if hasattr(ch, '__len__') else ch
    ctx.observe('sd', sd)
    ctx.observe('ch', ch0)
    ctx.claim('sd_equals_ch_T2_ZNR', ctx.eq(sd, ch0 * T * T * Z * N * R, 1e4))
    ctx.claim('shape_factor_positive', ch0 > 0)


BOUNDARIES = {'C': [0.1, 0.3, 1.5, 3.0], 'D': [0.1, 0.56, 1.5, 3.0], 'E': [0.1, 1.0, 1.5, 3.0]}


def nzs_continuity(ctx, site, tb):
    ds = ctx.lib.design_spectra
    T = ctx.real('T', tb - 1e-6, tb)
    ctx.assume(T < tb)
    left = ds.c_h_factor([T], site)[0]
    right = float(ds.c_h_factor([float(tb)], site)[0])
    ctx.observe('left', left)
    ctx.claim('continuous_to_table_precision', S.sym_abs(left - right) <= 0.006 * right, (tb, right))
    if tb == 0.1:
        z = float(ds.c_h_factor([0.0], site)[0])
        T0 = ctx.real('T0', 0.0, 1e-6)
        ctx.assume(T0 > 0)
        ctx.claim('continuous_at_zero', S.sym_abs(ds.c_h_factor([T0], site)[0] - z) <= 0.006 * z)


def t_eff(ctx, site):
    ds = ctx.lib.design_spectra
    Z = ctx.real('Z', 0.01, 5.0)
    N = ctx.real('N', 0.01, 5.0)
    R = ctx.real('R', 0.01, 5.0)
    d = ctx.real('d', 0.0, 50.0)
    lam = ctx.real('lam', 0.0, 1.0)
    g = 9.81
    corner = ds.sd_nzs(3.0, site, Z, R, N) * g / (2 * math.pi) ** 2
    # just inside the corner (in floats corner may exceed the library's own d_c by an ulp, which raises)
    ctx.claim('inverts_corner_displacement', ctx.eq(ds.t_eff(corner * (1 - 1e-9), site, Z, R, N), 3.0, 10.0, rtol=1e-8))
    try:
        t = ds.t_eff(d, site, Z, R, N)
    except ValueError:
        ctx.claim('raises_only_above_corner', d > corner)
        return
    ctx.observe('t', t)
    ctx.claim('no_raise_at_or_below_corner', d <= corner)
    t2 = ds.t_eff(lam * d, site, Z, R, N)
    ctx.claim('linear_in_displacement', ctx.eq(t2, lam * t, 10.0))
    ctx.claim('proportional_to_corner', ctx.eq(t * corner, 3.0 * d, 1e4))


SCENARIOS = {'interp2d': interp2d, 'interp_left': interp_left, 'roll_av': roll_av, 'step_error': step_error,
             'step_levels': step_levels, 'nzs': nzs, 'nzs_continuity': nzs_continuity, 't_eff': t_eff}
SELFTEST_PER_SCENARIO = 3


def obligations(tier, seed):
    q = tier == 'quick'
    for k, m, c in ([(1, 1, 1), (2, 1, 1), (2, 2, 1), (3, 1, 2)] if q else
                    [(1, 1, 1), (2, 1, 1), (2, 2, 2), (3, 1, 2), (3, 2, 1), (4, 1, 1), (4, 2, 1)]):
        yield Ob('interp2d', {'k': k, 'm': m, 'c': c}, query_ms=60000, timeout_s=1500)
    for k, m in ([(1, 1), (2, 1), (3, 2), (4, 1)] if q else [(1, 1), (2, 2), (3, 2), (4, 2), (5, 1)]):
        for wy in (True, False):
            yield Ob('interp_left', {'k': k, 'm': m, 'with_y': wy}, query_ms=60000)
    for n in ((1, 2, 4, 6) if q else (1, 2, 3, 5, 7, 9)):
        for steps in range(1, n + 1):
            for mode in ('forward', 'backward', 'centre'):
                yield Ob('roll_av', {'n': n, 'steps': steps, 'mode': mode})
            if steps == n and n in (1, 2, 4):
                # windows longer than the series (every sample then averages replicated edge values too)
                for extra in (1, 3):
                    for mode in ('forward', 'backward', 'centre'):
                        yield Ob('roll_av', {'n': n, 'steps': n + extra, 'mode': mode})
            if n in (4, 6, 7):
                # the second documented spelling of the centred window, and the default (forward) without the keyword
                yield Ob('roll_av', {'n': n, 'steps': steps, 'mode': 'center'})
                yield Ob('roll_av', {'n': n, 'steps': steps, 'mode': None})
                if n == 4:
                    yield Ob('roll_av', {'n': n, 'steps': steps, 'mode': mode, 'kind': 'i'})
    for n in ((2, 3, 4, 6) if q else (2, 3, 4, 5, 6, 8)):
        for p in (1, 2):
            yield Ob('step_error', {'n': n, 'p': p}, query_ms=60000)
            if (p == 2 and n <= 3) or (p == 1 and n == 2):
                yield Ob('step_error', {'n': n, 'p': p, 'kind': 'i'}, query_ms=20000)   # integer-dtype series
    for n in ((3, 5) if q else (3, 5, 8)):
        for ind in range(1, n - 1):
            yield Ob('step_levels', {'n': n, 'ind': ind})
    for site in ('C', 'D', 'E'):
        yield Ob('nzs', {'site': site}, query_ms=60000)
        yield Ob('t_eff', {'site': site}, query_ms=60000)
        for tb in BOUNDARIES[site]:
            yield Ob('nzs_continuity', {'site': site, 'tb': tb}, query_ms=60000)
