"""C06 - Fourier amplitude spectrum is dt x DFT of the zero-padded record, stated grid."""
import math
from fractions import Fraction
from vf.harness import Ob
from vf.engine import scalars as S
from vf.engine.models import twiddle

PROP = 'C06'

META = {
    'functions_encoded': ['Signal.gen_fa_spectrum(p2_plus, n) / .generate_fa_spectrum / .fa_spectrum / .fa_freqs / '
                          '.fa_frequencies (Signal and AccSignal)', 'eqsig.fns.frequency.generate_fa_spectrum(n_pad)',
                          'calc_fa_spectrum(n, p2_plus)', 'fas2values', 'fas2signal', 'eqsig.im.max_fa_period'],
    'stubs': ['np.fft.fft / np.fft.ifft: the DFT definition (n concrete) with twiddles exact to 2**-90'],
    'bounds': {'quick': 'npts in 2..9 fully symbolic record and symbolic dt in [1e-3,10]; p2_plus in 0..2; explicit n in '
                        '{npts, npts+1, 7, 8, 14}; padded/unpadded array-level variants; Signal and AccSignal; inverse helper '
                        'for N in {4,6,8,10,14,16}; dominant period: full records N in {2,4}, 2-sparse records N=8',
               'thorough': 'npts up to 20; p2_plus up to 3; inverse N up to 36; dominant period additionally 3-sparse N=8 and 2-sparse N=16 (optional)'},
    'outside': ["the FFT implementation itself (pocketfft) and its rounding: the stub IS the DFT, so what is decided about "
                "the real code is N selection, padding, bin slice, dt scaling, grid, linearity, Parseval, Hermitian "
                "reconstruction and the dominant-bin selection", 'calc_fourier_moment / get_bandwidth_boore_2003 (call the '
                'removed np.trapz: AttributeError in this environment; not in the statement)', 'npts beyond the bound'],
    'assumptions': [],
}


def _dft(vals, N, k):
    """sum_m x_m exp(-2 pi i k m / N), zero padding to N: (re, im)."""
    re = 0.0
    im = 0.0
    for m, x in enumerate(vals[:N]):
        c, s = twiddle(-k * m, N)
        if c != 0:
            re = re + x * c
        if s != 0:
            im = im + x * s
    return re, im


def _expected_N(npts, p2_plus, n):
    if n is not None:
        return n
    return 2 ** (int(math.ceil(math.log2(npts))) + (p2_plus or 0))


def _cmp_spectrum(ctx, tag, F, freqs, vals, dt, N):
    bins = N // 2
    ok_len = len(F) == bins and len(freqs) == bins
    ctx.claim(tag + 'bins_0_to_N_over_2_minus_1', ok_len, (len(F), len(freqs), bins))
    if not ok_len:
        return
    sc = 1e3 * N * 10.0
    good, grid = [], []
    for k in range(bins):
        re, im = _dft(vals, N, k)
        Fk = F[k]
        fre = Fk.re if isinstance(Fk, S.SC) else (Fk.real if not S.is_sym(Fk) else Fk)
        fim = Fk.im if isinstance(Fk, S.SC) else (Fk.imag if not S.is_sym(Fk) else 0.0)
        good.append(ctx.eq(fre, dt * re, sc))
        good.append(ctx.eq(fim, dt * im, sc))
        grid.append(ctx.eq(freqs[k] * (N * dt), float(k), 1e3) if k else ctx.eq(freqs[k], 0.0, 1.0))
    ctx.claim(tag + 'is_dt_times_dft_of_zero_padded_record', S.sym_and(*good))
    ctx.claim(tag + 'frequency_grid_is_k_over_N_dt', S.sym_and(*grid))


def spectrum(ctx, npts, p2_plus=0, n=None, cls='Signal'):
    lib = ctx.lib
    a = ctx.arr('a', npts, -100.0, 100.0)
    dt = ctx.real('dt', 1e-3, 10.0)
    vals = list(a)
    sig = getattr(lib, cls)(a, dt)
    if p2_plus == 0 and n is None:
        F, fr = sig.fa_spectrum, sig.fa_freqs          # lazy default
    else:
        sig.gen_fa_spectrum(p2_plus=p2_plus, n=n)
        F, fr = sig.fa_spectrum, sig.fa_frequencies
    ctx.observe('F', [[x.re, x.im] if isinstance(x, S.SC) else [x.real, x.imag] for x in F])
    N = _expected_N(npts, p2_plus, n)
    _cmp_spectrum(ctx, 'object_', F, fr, vals, dt, N)
    # array-level functions agree
    fq = lib.fns.frequency
    if n is None and p2_plus == 0:
        F2, fr2 = fq.generate_fa_spectrum(sig, n_pad=True)
        _cmp_spectrum(ctx, 'generate_padded_', F2, fr2, vals, dt, N)
        F3, fr3 = fq.generate_fa_spectrum(sig, n_pad=False)
        _cmp_spectrum(ctx, 'generate_unpadded_', F3, fr3, vals, dt, npts)
        F4, fr4 = fq.calc_fa_spectrum(sig)
        _cmp_spectrum(ctx, 'calc_unpadded_', F4, fr4, vals, dt, npts)
        # p2_plus = 0 given explicitly means "next power of two, no extra doubling" in both APIs
        F6, fr6 = fq.calc_fa_spectrum(sig, p2_plus=0)
        _cmp_spectrum(ctx, 'calc_explicit_p2_plus_0_', F6, fr6, vals, dt, N)
        sig2 = getattr(lib, cls)(a, dt)
        sig2.gen_fa_spectrum(p2_plus=0)
        _cmp_spectrum(ctx, 'object_explicit_p2_plus_0_', sig2.fa_spectrum, sig2.fa_frequencies, vals, dt, N)
        sig3 = getattr(lib, cls)(a, dt)
        sig3.generate_fa_spectrum()
        _cmp_spectrum(ctx, 'object_generate_', sig3.fa_spectrum, sig3.fa_freqs, vals, dt, N)
        # a long-lived object: spectrum and frequencies were read for an earlier record of another length (another N),
        # then the values were replaced; the frequency axis is read BEFORE the spectrum this time
        import numpy as _np
        for other in (3 * npts + 1, max(1, npts // 2 - 1)):
            sig5 = getattr(lib, cls)(_np.linspace(-1.0, 2.0, other), dt)
            _ = sig5.fa_spectrum, sig5.fa_freqs
            sig5.reset_values(a)
            fr5 = sig5.fa_frequencies
            _cmp_spectrum(ctx, 'object_after_value_replacement_', sig5.fa_spectrum, fr5, vals, dt, N)
    else:
        F5, fr5 = fq.calc_fa_spectrum(sig, n=n, p2_plus=p2_plus if n is None else None)
        _cmp_spectrum(ctx, 'calc_', F5, fr5, vals, dt, N)
        if n is not None:
            # a requested n wins over p2_plus in both APIs
            F7, fr7 = fq.calc_fa_spectrum(sig, n=n, p2_plus=0)
            _cmp_spectrum(ctx, 'calc_n_and_p2_plus_0_', F7, fr7, vals, dt, N)
            sig4 = getattr(lib, cls)(a, dt)
            sig4.gen_fa_spectrum(p2_plus=1, n=n)
            _cmp_spectrum(ctx, 'object_n_wins_over_p2_plus_', sig4.fa_spectrum, sig4.fa_freqs, vals, dt, N)


def relations(ctx, npts):
    """linearity, trailing zeros, Parseval (default padding)."""
    lib = ctx.lib
    a = ctx.arr('a', npts, -30.0, 30.0)
    b = ctx.arr('b', npts, -30.0, 30.0)
    al = ctx.real('alpha', -30.0, 30.0)
    dt = 0.01
    N = _expected_N(npts, 0, None)
    Fa = lib.Signal(a, dt).fa_spectrum
    Fb = lib.Signal(b, dt).fa_spectrum
    Fc = lib.Signal(al * a + b, dt).fa_spectrum
    ctx.claim('linear', S.sym_and(*[ctx.eq(Fc[k], al * Fa[k] + Fb[k], 1e6) for k in range(len(Fa))]))
    if npts < N:
        z = ctx.np.array(list(a) + [0.0] * (N - npts))
        Fz = lib.Signal(z, dt).fa_spectrum
        ctx.claim('trailing_zeros_that_keep_N_change_nothing',
                  S.sym_and(len(Fz) == len(Fa), *[ctx.eq(Fz[k], Fa[k], 1e6) for k in range(min(len(Fz), len(Fa)))]))
    # Parseval with the one-sided spectrum of a real record (N even): |F0|^2 + 2 sum |Fk|^2 + |F_nyq|^2 = dt^2 N sum x^2
    tot = 0.0
    for k in range(len(Fa)):
        Fk = Fa[k]
        m2 = Fk.re * Fk.re + Fk.im * Fk.im if isinstance(Fk, S.SC) else abs(Fk) ** 2
        tot = tot + (m2 if k == 0 else 2 * m2)
    nyq = 0.0
    e = 0.0
    for m, x in enumerate(list(a)):
        nyq = nyq + (x if m % 2 == 0 else -x)
        e = e + x * x
    tot = tot + dt * dt * nyq * nyq
    ctx.claim('parseval', ctx.poly_small(tot - dt * dt * N * e, 1e-12 * dt * dt * N * npts * 900.0))


def inverse(ctx, N, stype=None, cached=False):
    """fas2values / fas2signal on the one-sided spectrum of a symbolic record of length N."""
    lib = ctx.lib
    a = ctx.arr('a', N, -100.0, 100.0)
    dt = 0.02
    sig = lib.Signal(a, dt)
    if cached:
        # the object's own cached spectrum (N points requested), handed to the inverse helper as users do
        sig.gen_fa_spectrum(n=N)
        F = sig.fa_spectrum
    else:
        F, fr = lib.fns.frequency.calc_fa_spectrum(sig, n=N)
    keep = [(x.re + 0.0, x.im + 0.0) if isinstance(x, S.SC) else x for x in F]
    if stype is None:
        out = lib.fns.frequency.fas2values(F, dt)
    else:
        s2 = lib.fns.frequency.fas2signal(F, dt, stype=stype)
        ctx.claim('requested_type', isinstance(s2, lib.AccSignal if stype != 'signal' else lib.Signal))
        out = s2.values
    # the helper must not write into the spectrum it was given (the object hands out its cached array)
    after = sig.fa_spectrum if cached else F
    same = [len(after) == len(keep)]
    for k in range(min(len(after), len(keep))):
        x, y = after[k], keep[k]
        if isinstance(y, tuple):
            xr, xi = (x.re, x.im) if isinstance(x, S.SC) else (x.real if not S.is_sym(x) else x, x.imag if not S.is_sym(x) else 0.0)
            same.append(S.sym_and(ctx.eq(xr, y[0], 1e3), ctx.eq(xi, y[1], 1e3)))
        else:
            same.append(ctx.eq(x, y, 1e3))
    ctx.claim('spectrum_argument_and_cached_spectrum_unchanged', S.sym_and(*same))
    ctx.observe('len', len(out))
    n2 = 2 * len(F)
    ctx.claim('reconstruction_has_padded_length', len(out) == n2, (len(out), n2))
    vals = list(a)
    mean = 0.0
    nyq = 0.0
    for m, x in enumerate(vals):
        mean = mean + x
        nyq = nyq + (x if m % 2 == 0 else -x)
    good = []
    for m in range(min(len(out), n2)):
        want = vals[m] - mean / n2 - (nyq / n2 if m % 2 == 0 else -nyq / n2) if N % 2 == 0 else None
        if want is None:
            continue
        o = out[m]
        ore = o.re if isinstance(o, S.SC) else (o.real if not S.is_sym(o) else o)
        oim = o.im if isinstance(o, S.SC) else (o.imag if not S.is_sym(o) else 0.0)
        good.append(ctx.poly_small(ore - want, 1e-9))
        good.append(ctx.poly_small(oim, 1e-9))
    ctx.claim('record_minus_mean_and_nyquist_component', S.sym_and(*good))


def dominant(ctx, npts, cls='AccSignal', support=None):
    lib = ctx.lib
    if support is None:
        a = ctx.arr('a', npts, -100.0, 100.0)
    else:
        # sparse record: symbolic samples only at the given positions (keeps the quadratic queries small)
        a = ctx.np.array([ctx.real('a[%d]' % i, -100.0, 100.0) if i in support else 0.0 for i in range(npts)])
    dt = 0.05
    sig = getattr(lib, cls)(a, dt)
    T = lib.im.max_fa_period(sig)
    N = _expected_N(npts, 0, None)
    bins = N // 2
    freqs = [k / (N * dt) for k in range(bins)]
    got = None
    for k in range(bins):
        p = math.inf if k == 0 else 1.0 / freqs[k]
        if (math.isinf(p) and math.isinf(float(T))) or (not math.isinf(p) and abs(float(T) - p) <= 1e-9 * p):
            got = k
    ctx.observe('bin', got)
    ctx.claim('period_is_reciprocal_of_a_bin_frequency', got is not None, repr(T))
    if got is None:
        return
    vals = list(a)
    amp2 = []
    for k in range(bins):
        re, im = _dft(vals, N, k)
        amp2.append(re * re + im * im)
    # ties (measure zero) are broken by rounding in floats: the reported bin must be a largest one to within 1e-9
    ctx.claim('bin_has_the_largest_amplitude',
              S.sym_and(*[(amp2[got] >= amp2[k]) if ctx.symbolic else bool(amp2[got] >= amp2[k] * (1 - 1e-9))
                          for k in range(bins)]), got)


SCENARIOS = {'spectrum': spectrum, 'relations': relations, 'inverse': inverse, 'dominant': dominant}
SELFTEST_PER_SCENARIO = 3


def obligations(tier, seed):
    q = tier == 'quick'
    for npts in ((2, 3, 4, 5, 8, 9) if q else (2, 3, 4, 5, 7, 8, 9, 12, 16, 17, 20)):
        for cls in ('Signal', 'AccSignal'):
            if cls == 'AccSignal' and npts not in (3, 8):
                continue
            yield Ob('spectrum', {'npts': npts, 'cls': cls}, query_ms=60000)
        for p2 in ((1, 2) if q else (1, 2, 3)):
            if npts <= 5:
                yield Ob('spectrum', {'npts': npts, 'p2_plus': p2}, query_ms=60000)
    for npts, n in ((3, 3), (3, 4), (4, 4), (5, 7), (5, 8), (6, 14), (4, 5), (7, 7), (6, 6)):
        yield Ob('spectrum', {'npts': npts, 'n': n}, query_ms=60000)
    for npts in ((2, 3, 5, 8) if q else (2, 3, 5, 8, 11, 16)):
        yield Ob('relations', {'npts': npts}, query_ms=60000)
    for N in ((4, 6, 8, 10, 14, 16) if q else (4, 6, 8, 10, 12, 14, 16, 18, 28, 32, 36)):
        yield Ob('inverse', {'N': N}, query_ms=60000)
    for st in ('signal', 'acc'):
        yield Ob('inverse', {'N': 6, 'stype': st}, query_ms=60000)
        yield Ob('inverse', {'N': 8, 'stype': st, 'cached': True}, query_ms=60000)
    for N in (4, 6):
        yield Ob('inverse', {'N': N, 'cached': True}, query_ms=60000)
    for npts in (2, 3, 4):
        yield Ob('dominant', {'npts': npts}, query_ms=30000, timeout_s=300)
    for npts, sup in (((7, [0, 3]), (8, [1, 2]), (6, [0, 5])) if q else ((7, [0, 3]), (8, [1, 2]), (6, [0, 5]), (7, [0, 2, 5]), (13, [1, 6]))):
        yield Ob('dominant', {'npts': npts, 'support': sup}, query_ms=30000, timeout_s=300, optional=len(sup) > 2)
    yield Ob('dominant', {'npts': 4, 'cls': 'Signal'}, query_ms=60000)
