"""C10 - Significant and bracketed durations locate threshold crossings exactly."""
import math
from vf.harness import Ob
from vf.engine import scalars as S

PROP = 'C10'

META = {
    'functions_encoded': ['eqsig.im.calc_sig_dur_vals', 'calc_sig_dur (default Arias, im=calc_cav, im=<arbitrary symbolic measure>)',
                          'calc_significant_duration', 'calc_brac_dur', 'calc_bracketed_duration',
                          'calc_arias_intensity / calc_cav (callees)'],
    'stubs': [],
    'bounds': {'quick': '(a) arbitrary symbolic cumulative measure c in [-10,10]^n, n in 2..7, symbolic fractions '
                        '0<start<end<1, se in {T,F}; (b) symbolic record n in 2..6 through sum-of-squares / Arias / CAV '
                        'with fraction pairs {(.05,.95),(.25,.75),(.5,.75),(.1,.9)}; prepended zeros k<=2; alpha=-2.5; '
                        'bracketed: n<=7, symbolic threshold>=0 and dt',
               'thorough': '(a) n<=9; (b) n<=7, more pairs, k<=3; bracketed n<=8 (n=9 optional)'},
    'outside': ['rounding in the threshold comparisons', 'AccSignal.generate_duration_stats (calls the removed np.trapz)',
                'records for which no sample lies strictly between the fractions (library raises IndexError; outside '
                'the statement - the check only demands that it raises exactly then)'],
    'assumptions': [],
}


class _Sig(object):
    def __init__(self, values, dt):
        self.values = values
        self.dt = dt
        self.npts = len(values)


def _between(c, s, e):
    last = c[len(c) - 1]
    return [S.sym_and(c[i] > s * last, c[i] < e * last) for i in range(len(c))]


def _first_last_claim(inside, k0, k1):
    n = len(inside)
    return S.sym_and(inside[k0], inside[k1], *([S.sym_not(inside[j]) for j in range(0, k0)] +
                                                [S.sym_not(inside[j]) for j in range(k1 + 1, n)]))


def _check_crossing(ctx, call, inside, n, dt, tag):
    """call(se) -> library result; dt concrete so indices can be read back from the times."""
    try:
        st, en = call(True)
    except IndexError:
        ctx.claim(tag + 'raises_only_when_nothing_between', S.sym_and(*[S.sym_not(x) for x in inside]))
        return None
    k0 = int(round(float(st) / dt))
    k1 = int(round(float(en) / dt))
    ctx.observe(tag + 'k', [k0, k1])
    ok = 0 <= k0 <= k1 <= n - 1 and abs(float(st) - k0 * dt) < 1e-9 and abs(float(en) - k1 * dt) < 1e-9
    ctx.claim(tag + 'ordered_within_record', ok, (k0, k1))
    if not ok:
        return None
    ctx.claim(tag + 'first_and_last_strictly_between', _first_last_claim(inside, k0, k1), (k0, k1))
    dur = call(False)
    ctx.claim(tag + 'duration_is_end_minus_start', abs(float(dur) - (k1 - k0) * dt) < 1e-9, float(dur))
    return k0, k1


def generic_measure(ctx, n, nested=False):
    """(a) arbitrary measure through the documented im= hook, symbolic fractions."""
    c = ctx.arr('c', n, -10.0, 10.0)
    s = ctx.real('start', 0.0, 1.0)
    e = ctx.real('end', 0.0, 1.0)
    ctx.assume(S.sym_and(s > 0, s < e, e < 1))
    im = ctx.lib.im
    dt = 0.5
    sig = _Sig(ctx.np.zeros(n), dt)
    r = _check_crossing(ctx, lambda se: im.calc_sig_dur(sig, start=s, end=e, im=lambda a: c, se=se),
                        _between(c, s, e), n, dt, '')
    if nested and r is not None:
        s2 = ctx.real('start2', 0.0, 1.0)
        e2 = ctx.real('end2', 0.0, 1.0)
        ctx.assume(S.sym_and(s <= s2, s2 < e2, e2 <= e))
        try:
            st2, en2 = im.calc_sig_dur(sig, start=s2, end=e2, im=lambda a: c, se=True)
        except IndexError:
            return
        ctx.claim('widening_never_shortens', (float(en2) - float(st2)) <= (r[1] - r[0]) * dt + 1e-9,
                  (r, float(st2), float(en2)))


def _cum(a, dt, kind):
    out = []
    if kind == 'sumsq':
        t = 0.0
        for x in a:
            t = t + x * x
            out.append(t)
    elif kind == 'arias':
        t = 0.0
        out.append(t)
        for i in range(1, len(a)):
            t = t + dt * (a[i] * a[i] + a[i - 1] * a[i - 1]) / 2.0
            out.append(t)
    else:
        t = 0.0
        out.append(t)
        for i in range(1, len(a)):
            t = t + dt * (S.sym_abs(a[i]) + S.sym_abs(a[i - 1])) / 2.0
            out.append(t)
    return out


def _call(ctx, kind, a, dt, s, e):
    im = ctx.lib.im
    if kind == 'sumsq':
        return lambda se: im.calc_sig_dur_vals(a, dt, start=s, end=e, se=se)
    if kind == 'arias_history':
        # a long-lived object: statistics were generated for an earlier record, then the values were replaced
        import warnings
        import numpy as _np
        with warnings.catch_warnings():
            warnings.simplefilter('ignore')
            sig = ctx.lib.AccSignal(_np.array([0.5, -3.0, 0.25, 4.0, -1.0, 0.75, 2.0, -0.5][:max(2, len(a))] + [1.5] * max(0, len(a) - 8)), dt)
            sig.generate_cumulative_stats()
            _ = sig.velocity, sig.pga
        sig.reset_values(a)
        return lambda se: im.calc_sig_dur(sig, start=s, end=e, se=se)
    sig = ctx.lib.AccSignal(a, dt)
    if kind == 'arias':
        return lambda se: im.calc_sig_dur(sig, start=s, end=e, se=se)
    return lambda se: im.calc_sig_dur(sig, start=s, end=e, im=im.calc_cav, se=se)


def record(ctx, n, kind, start, end, k=0, alpha=None, dt=0.5):
    """(b) symbolic record through the real cumulative measure, concrete fractions."""
    a = ctx.arr('a', n, -10.0, 10.0)
    r = _check_crossing(ctx, _call(ctx, kind, a, dt, start, end),
                        _between(_cum(list(a), dt, 'arias' if kind == 'arias_history' else kind), start, end), n, dt, '')
    if r is None:
        return
    if k:
        sh = ctx.np.array([0.0] * k + list(a))
        try:
            st, en = _call(ctx, kind, sh, dt, start, end)(True)
            ctx.claim('prepending_zeros_shifts_by_k_dt',
                      abs(float(st) - (r[0] + k) * dt) < 1e-9 and abs(float(en) - (r[1] + k) * dt) < 1e-9,
                      (r, float(st), float(en)))
        except IndexError:
            ctx.claim('prepending_zeros_shifts_by_k_dt', False, 'IndexError on the shifted record')
    if alpha is not None:
        try:
            st, en = _call(ctx, kind, alpha * a, dt, start, end)(True)
            ctx.claim('amplitude_scaling_invariant',
                      abs(float(st) - r[0] * dt) < 1e-9 and abs(float(en) - r[1] * dt) < 1e-9, (r, float(st), float(en)))
        except IndexError:
            ctx.claim('amplitude_scaling_invariant', False, 'IndexError on the scaled record')


def deprecated_alias(ctx, n):
    a = ctx.arr('a', n, -10.0, 10.0)
    im = ctx.lib.im
    try:
        want = im.calc_sig_dur_vals(a, 0.5, start=0.25, end=0.75)
    except IndexError:
        return
    ctx.claim('deprecated_alias_same', abs(float(im.calc_significant_duration(a, 0.5, start=0.25, end=0.75)) - float(want)) < 1e-12)


def bracketed(ctx, n, alpha=-2.5):
    a = ctx.arr('a', n, -10.0, 10.0)
    thr = ctx.real('thr', 0.0, 20.0)
    dt = ctx.real('dt', 1e-3, 10.0)
    im = ctx.lib.im
    sig = ctx.lib.AccSignal(a, dt)
    above = [S.sym_abs(a[i]) > thr for i in range(n)]
    se = im.calc_brac_dur(sig, thr, se=True)
    dur = im.calc_brac_dur(sig, thr)
    if se[0] is None or se[1] is None:
        ctx.claim('none_only_when_nothing_exceeds', S.sym_and(*[S.sym_not(x) for x in above]))
        ctx.claim('empty_duration_is_zero', (not S.is_sym(dur)) and dur == 0, repr(dur))
        ctx.claim('empty_se_is_none_none', se[0] is None and se[1] is None)
        return
    # indices: the library result is k*dt with k concrete on this path
    ks = []
    for t in se:
        found = [k for k in range(n) if (not isinstance(t - k * dt, S.SR)) or (t - k * dt).same(0.0)] \
            if ctx.symbolic else [k for k in range(n) if abs(t - k * dt) <= 1e-9 * max(1.0, abs(t))]
        ks.append(found[0] if found else None)
    ctx.observe('k', ks)
    ok = ks[0] is not None and ks[1] is not None and ks[0] <= ks[1]
    ctx.claim('times_are_sample_instants', ok, ks)
    if not ok:
        return
    ctx.claim('first_and_last_exceeding', _first_last_claim(above, ks[0], ks[1]), ks)
    ctx.claim('duration_is_last_minus_first', ctx.eq(dur, (ks[1] - ks[0]) * dt, 100.0))
    ctx.claim('deprecated_alias_same', ctx.eq(im.calc_bracketed_duration(sig, thr), dur, 100.0))
    # non-increasing in the threshold
    thr2 = ctx.real('thr2', 0.0, 20.0)
    ctx.assume(thr2 >= thr)
    d2 = im.calc_brac_dur(sig, thr2)
    ctx.claim('non_increasing_in_threshold', ctx.le(d2, dur, 100.0))
    # joint scaling of record and threshold
    sig3 = ctx.lib.AccSignal(alpha * a, dt)
    d3 = im.calc_brac_dur(sig3, abs(alpha) * thr)
    ctx.claim('joint_scaling_invariant', ctx.eq(d3, dur, 100.0))


SCENARIOS = {'generic_measure': generic_measure, 'record': record, 'bracketed': bracketed,
             'deprecated_alias': deprecated_alias}
SELFTEST_PER_SCENARIO = 3


def obligations(tier, seed):
    q = tier == 'quick'
    for n in range(7 if q else 9, 1, -1):
        yield Ob('generic_measure', {'n': n}, query_ms=60000, timeout_s=1500)
    for n in ((3, 5) if q else (3, 5, 6)):
        yield Ob('generic_measure', {'n': n, 'nested': True}, query_ms=60000, timeout_s=1500)
    pairs = [(0.05, 0.95), (0.25, 0.75), (0.5, 0.75), (0.1, 0.9)] + ([] if q else [(0.05, 0.75), (0.3, 0.31)])
    for kind in ('sumsq', 'arias', 'cav'):
        for n in range(6 if q else 7, 1, -1):
            for (s, e) in pairs:
                if n >= 6 and (s, e) not in ((0.05, 0.95), (0.25, 0.75)):
                    continue
                yield Ob('record', {'n': n, 'kind': kind, 'start': s, 'end': e}, query_ms=60000, timeout_s=1500)
        for n in ((3, 4) if q else (3, 4, 5)):
            for k in ((1, 2) if q else (1, 2, 3)):
                yield Ob('record', {'n': n, 'kind': kind, 'start': 0.25, 'end': 0.75, 'k': k}, query_ms=60000)
            yield Ob('record', {'n': n, 'kind': kind, 'start': 0.25, 'end': 0.75, 'alpha': -2.5}, query_ms=60000)
    for n in ((3, 4) if q else (3, 4, 5)):
        for (s_, e_) in ((0.05, 0.95), (0.25, 0.75)):
            yield Ob('record', {'n': n, 'kind': 'arias_history', 'start': s_, 'end': e_}, query_ms=60000, timeout_s=1500)
    yield Ob('deprecated_alias', {'n': 4})
    # n = 10 did not finish within 1500 s in two end-to-end thorough runs (path count doubles per sample): 9 is attempted as
    # an optional obligation (reported, never counted as discharged when it runs out of budget)
    for n in ((1, 2, 3, 5, 7) if q else (1, 2, 3, 5, 8, 9)):
        yield Ob('bracketed', {'n': n}, query_ms=60000, timeout_s=1500, optional=(n >= 9))
