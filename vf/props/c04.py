"""C04 - Derived quantities of a signal object never go stale."""
import itertools
import random
import warnings
import numpy as np
from vf.harness import Ob
from vf.engine import scalars as S

PROP = 'C04'

META = {
    'functions_encoded': ['Signal / AccSignal state handling: reset_values, clear_cache (both classes), reset_all_motion_stats, every '
                          'mutator (add_constant/series/signal, remove_average, remove_poly, running_average, butter_pass, '
                          'remove_rolling_average x2, rebase_displacement, set_zero_residual_velocity(timezone), '
                          'set_zero_residual_displacement, set_zero_residual_displacement_and_velocity x2)',
                          'settings changes (smooth_fa_freqs / smooth_fa_frequencies setters, set_smooth_fa_frequecies_by_range, '
                          'deprecated smooth_freq_range / smooth_freq_points setters, gen_smooth_fa_spectrum(smooth_fa_freqs=), '
                          'response_times assignment, gen_response_spectrum(response_times=), response_series(response_times=))',
                          'reads: npts, time, fa_spectrum, fa_freqs, smooth_fa_spectrum, velocity, displacement, pga, pgv, pgd, '
                          's_a, s_v, s_d'],
    'stubs': ['np.fft.fft (DFT definition)', 'np.interp', 'np.polyfit (exact least squares)', 'scipy.signal.filtfilt (order-1 low-pass '
              'so that n=8 exceeds padlen)'],
    'bounds': {'quick': 'symbolic record n=8 (and symbolic added constants/series/new values); observational cache state = which of '
                        '{fa, smooth-fa, disp/velo, pga, pgv, pgd, spectra} were read since the last change: 24 of the 128 '
                        'pre-states (empty, full, singletons, seeded random) x every operation of the alphabet x all 13 reads '
                        'afterwards (twice: idempotence / non-interference), compared with a freshly constructed object',
               'thorough': 'all 128 pre-states; plus all two-operation histories from the full-cache state'},
    'outside': ['explicit generator calls with non-default arguments (gen_fa_spectrum(p2_plus=), gen_response_spectrum(xi=)): not in '
                "the property's operation list", 'correct_me (SciPy detrend)', 'set_zero_residual_velocity(timezone=None)',
                'the deprecated generate_*_stats attributes'],
    'assumptions': ['inductive reading: every pre-state is built by really performing those reads on a fresh object, so the invariant '
                    '"whatever is cached equals the fresh value" holds in it by construction; if every operation preserves it from '
                    'every pre-state it holds after any finite history'],
}

DT = 0.1
N = 8
GROUPS = ['fa', 'smooth', 'dv', 'pga', 'pgv', 'pgd', 'spectra']
RT0 = [0.3, 0.9]
SF0 = [0.7, 1.3, 2.4]


def _read_group(sig, g):
    if g == 'fa':
        return sig.fa_spectrum
    if g == 'smooth':
        return sig.smooth_fa_spectrum
    if g == 'dv':
        return sig.velocity
    if g == 'pga':
        return sig.pga
    if g == 'pgv':
        return sig.pgv
    if g == 'pgd':
        return sig.pgd
    return sig.s_a


ACC_READS = ['npts', 'time', 'fa_spectrum', 'fa_freqs', 'smooth_fa_spectrum', 'velocity', 'displacement', 'pga', 'pgv', 'pgd',
             's_a', 's_v', 's_d']
SIG_READS = ['npts', 'time', 'fa_spectrum', 'fa_freqs', 'smooth_fa_spectrum']


def _flat(v):
    if isinstance(v, np.ndarray):
        return [x for x in np.asarray(v, dtype=object).ravel()]
    if isinstance(v, (list, tuple)):
        out = []
        for x in v:
            out.extend(_flat(x))
        return out
    return [v]


def _eq_all(ctx, a, b):
    fa, fb = _flat(a), _flat(b)
    if len(fa) != len(fb):
        return False
    return S.sym_and(*[ctx.eq(x, y) for x, y in zip(fa, fb)])


def _ops(ctx, lib, cls):
    """operation alphabet: name -> callable(sig).  Symbolic payloads are created on demand."""
    def series(name, n=N):
        return ctx.arr(name, n, -10.0, 10.0)
    O = {}
    O['reset_values_same_length'] = lambda s: s.reset_values(series('new%d' % s.npts, s.npts))
    O['reset_values_shorter'] = lambda s: s.reset_values(series('new7', 7))      # 7 > filtfilt's padlen (6) so that a later butter_pass is legal
    # ... and to lengths whose FFT size 2**ceil(log2 npts) differs from the current one (8 -> 16 and 8 -> 4): the frequency
    # axis depends on it
    O['reset_values_longer_other_fft_size'] = lambda s: s.reset_values(series('new11', 11))
    O['reset_values_much_shorter'] = lambda s: s.reset_values(series('new4', 4))
    O['add_constant'] = lambda s: s.add_constant(ctx.real('c', -10.0, 10.0))
    O['add_series'] = lambda s: s.add_series(series('ser%d' % s.npts, s.npts))      # of the CURRENT length
    O['add_signal'] = lambda s: s.add_signal(lib.Signal(series('other%d' % s.npts, s.npts), DT))
    O['remove_average'] = lambda s: s.remove_average()
    O['remove_poly'] = lambda s: s.remove_poly(poly_fit=1)
    O['running_average'] = lambda s: s.running_average(3)
    O['butter_pass'] = lambda s: s.butter_pass((None, 2.0), filter_order=1)
    O['set_smooth_fa_freqs'] = lambda s: setattr(s, 'smooth_fa_freqs', np.array([0.9, 1.9]))
    O['set_smooth_fa_frequencies'] = lambda s: setattr(s, 'smooth_fa_frequencies', [1.1, 2.2, 3.1])
    O['set_smooth_by_range'] = lambda s: s.set_smooth_fa_frequecies_by_range((0.5, 3.0), 4)
    O['set_smooth_freq_range_deprecated'] = lambda s: setattr(s, 'smooth_freq_range', (0.6, 2.5))
    O['set_smooth_freq_points_deprecated'] = lambda s: setattr(s, 'smooth_freq_points', 4)
    O['gen_smooth_with_freqs'] = lambda s: s.gen_smooth_fa_spectrum(smooth_fa_freqs=np.array([0.8, 1.6]))
    if cls == 'AccSignal':
        O['remove_rolling_average_v'] = lambda s: s.remove_rolling_average(mtype='velocity', freq_window=5)
        O['remove_rolling_average_a'] = lambda s: s.remove_rolling_average(mtype='acc', freq_window=5)
        O['rebase_displacement'] = lambda s: s.rebase_displacement()
        O['zero_residual_velocity_tz'] = lambda s: s.set_zero_residual_velocity(timezone=(0.2, 0.6))
        O['zero_residual_displacement'] = lambda s: s.set_zero_residual_displacement()
        O['zero_residual_disp_and_velo'] = lambda s: s.set_zero_residual_displacement_and_velocity()
        O['zero_residual_disp_and_velo_tz'] = lambda s: s.set_zero_residual_displacement_and_velocity(timezone=(0.2, 0.6))
        O['assign_response_times'] = lambda s: setattr(s, 'response_times', np.array([0.5, 1.4]))
        O['gen_response_spectrum_with_times'] = lambda s: s.gen_response_spectrum(response_times=np.array([0.45, 1.2]))
        O['response_series_with_times'] = lambda s: s.response_series(response_times=np.array([0.6, 1.1]))
        # new periods whose shortest one implies another integration step than the old list's (T_min/20 vs dt/4)
        O['gen_response_spectrum_with_long_times'] = lambda s: s.gen_response_spectrum(response_times=np.array([2.4, 3.0]))
        O['gen_response_spectrum_with_short_times'] = lambda s: s.gen_response_spectrum(response_times=np.array([0.62, 3.0]), min_dt_ratio=8)
    return O


def op_names(cls):
    class _C(object):
        def arr(self, *a, **k):
            return None

        def real(self, *a, **k):
            return None
    return list(_ops(_C(), None, cls).keys())


def _make(lib, cls, values, smooth=None, rt=None):
    if cls == 'AccSignal':
        return lib.AccSignal(values, DT, smooth_fa_freqs=np.array(SF0) if smooth is None else smooth,
                             response_times=np.array(RT0) if rt is None else rt)
    return lib.Signal(values, DT, smooth_fa_freqs=np.array(SF0) if smooth is None else smooth)


def prestates(tier, seed, cls):
    groups = GROUPS if cls == 'AccSignal' else GROUPS[:2]
    allp = [tuple(g for g, bit in zip(groups, bits) if bit) for bits in itertools.product((0, 1), repeat=len(groups))]
    if tier != 'quick' or len(allp) <= 24:
        return allp
    rng = random.Random(1000 + seed)
    core = [(), tuple(groups)] + [(g,) for g in groups]
    rest = [p for p in allp if p not in core]
    rng.shuffle(rest)
    return core + rest[:24 - len(core)]


def staleness(ctx, op, cls, pre):
    lib = ctx.lib
    warnings.simplefilter('ignore')
    base = ctx.arr('x', N, -10.0, 10.0)
    reads = ACC_READS if cls == 'AccSignal' else SIG_READS
    ops = _ops(ctx, lib, cls)
    for pi, groups in enumerate(pre):
        sig = _make(lib, cls, base)
        for g in groups:
            _read_group(sig, g)
        ops[op](sig)
        fresh = _make(lib, cls, np.array(sig.values) if not hasattr(sig.values, 'copy') else sig.values.copy(),
                      smooth=sig.smooth_fa_freqs, rt=getattr(sig, 'response_times', None))
        first = {}
        tag = '+'.join(groups) or 'nothing'
        for r in reads:
            got = getattr(sig, r)
            want = getattr(fresh, r)
            first[r] = _flat(got)
            ctx.claim('equals_fresh_object:' + r, _eq_all(ctx, got, want), (op, tag))
        again = []
        for r in reads:
            again.append(_eq_all(ctx, getattr(sig, r), first[r]))
        # ... and once more in the opposite order, on the operated object and on a second fresh one that has never
        # been read in the forward order (a read must not depend on which other reads came before it)
        fresh2 = _make(lib, cls, sig.values.copy(), smooth=sig.smooth_fa_freqs, rt=getattr(sig, 'response_times', None))
        for r in reversed(reads):
            again.append(_eq_all(ctx, getattr(sig, r), first[r]))
            again.append(_eq_all(ctx, getattr(fresh2, r), first[r]))
        ctx.claim('reads_idempotent_and_non_interfering', S.sym_and(*again), (op, tag))
        # the same history on a second object whose FIRST reads after the operation come in the opposite order (one read
        # may repair what another one would have shown stale, e.g. the spectrum regenerating the frequency axis)
        sig_r = _make(lib, cls, base)
        for g in groups:
            _read_group(sig_r, g)
        ops[op](sig_r)
        for r in reversed(reads):
            ctx.claim('equals_fresh_object:' + r, _eq_all(ctx, getattr(sig_r, r), first[r]), (op, tag, 'reverse read order'))


def pairs(ctx, op1, op2, cls='AccSignal'):
    """two operations from the full-cache state (checks that the one-step invariant is not too weak)."""
    lib = ctx.lib
    warnings.simplefilter('ignore')
    base = ctx.arr('x', N, -10.0, 10.0)
    ops = _ops(ctx, lib, cls)
    sig = _make(lib, cls, base)
    for g in GROUPS:
        _read_group(sig, g)
    ops[op1](sig)
    for g in GROUPS:
        _read_group(sig, g)
    ops[op2](sig)
    fresh = _make(lib, cls, sig.values.copy(), smooth=sig.smooth_fa_freqs, rt=sig.response_times)
    for r in ACC_READS:
        ctx.claim('equals_fresh_object:' + r, _eq_all(ctx, getattr(sig, r), getattr(fresh, r)), (op1, op2))


SETTINGS_SEQS = {
    'range_direct_range_back': [('range', (0.5, 3.0), 4), ('direct', [0.6, 1.1, 1.9, 2.8]), ('range', (0.5, 3.0), 4)],
    'range_freqs_range_back': [('range', (0.5, 3.0), 3), ('freqs', [0.7, 1.4, 2.1]), ('range', (0.5, 3.0), 3)],
    'range_gen_range_back': [('range', (0.4, 2.5), 2), ('gen', [0.8, 1.6]), ('range', (0.4, 2.5), 2)],
    'direct_range_direct_back': [('direct', [0.9, 1.9]), ('range', (0.5, 3.0), 2), ('direct', [0.9, 1.9])],
    'range_twice': [('range', (0.5, 3.0), 4), ('range', (0.5, 3.0), 4)],
    'range_other_count': [('range', (0.5, 3.0), 4), ('direct', [0.6, 1.9, 2.8]), ('range', (0.5, 3.0), 3)],
}


def settings(ctx, seq, cls='AccSignal'):
    """sequences of smoothing-frequency settings, each followed by a read: after every step the object's smoothing
    frequencies are what THAT step asked for (computed here, not taken from the object) and the smoothed spectrum equals a
    fresh object's with those frequencies."""
    lib = ctx.lib
    warnings.simplefilter('ignore')
    base = ctx.arr('x', N, -10.0, 10.0)
    sig = _make(lib, cls, base)
    _ = sig.smooth_fa_spectrum
    for step, (kind, arg, *rest) in enumerate(SETTINGS_SEQS[seq]):
        if kind == 'range':
            sig.set_smooth_fa_frequecies_by_range(arg, rest[0])
            want = np.logspace(np.log10(arg[0]), np.log10(arg[1]), rest[0])
        elif kind == 'direct':
            sig.smooth_fa_freqs = np.array(arg)
            want = np.array(arg)
        elif kind == 'freqs':
            sig.smooth_fa_frequencies = list(arg)
            want = np.array(arg)
        else:
            sig.gen_smooth_fa_spectrum(smooth_fa_freqs=np.array(arg))
            want = np.array(arg)
        got = np.asarray(sig.smooth_fa_freqs, dtype=float)
        ctx.claim('smoothing_frequencies_are_what_the_last_setting_asked_for',
                  len(got) == len(want) and bool(np.all(np.abs(got - want) <= 1e-12 * np.abs(want))), (step, kind, list(got)))
        fresh = _make(lib, cls, base, smooth=want)
        ctx.claim('equals_fresh_object:smooth_fa_spectrum', _eq_all(ctx, sig.smooth_fa_spectrum, fresh.smooth_fa_spectrum), (step, kind))
        ctx.claim('equals_fresh_object:smooth_fa_frequencies', _eq_all(ctx, sig.smooth_fa_frequencies, fresh.smooth_fa_frequencies), (step, kind))


SCENARIOS = {'staleness': staleness, 'pairs': pairs, 'settings': settings}
SELFTEST_PER_SCENARIO = 10
SELFTEST_NVEC = 1


def obligations(tier, seed):
    q = tier == 'quick'
    for cls in ('AccSignal', 'Signal'):
        ps = prestates(tier, seed, cls)
        for op in op_names(cls):
            chunk = 6 if cls == 'AccSignal' else 4
            for i in range(0, len(ps), chunk):
                yield Ob('staleness', {'op': op, 'cls': cls, 'pre': [list(p) for p in ps[i:i + chunk]]}, query_ms=10000,
                         timeout_s=300)
    for seq in SETTINGS_SEQS:
        for cls in ('AccSignal', 'Signal'):
            yield Ob('settings', {'seq': seq, 'cls': cls}, query_ms=10000, timeout_s=300)
    if not q:
        names = op_names('AccSignal')
        for a in names:
            for b in names:
                if a == 'reset_values_much_shorter' and b != a:
                    # a 4-sample record is legally refused by SciPy's filtfilt (padlen 6) and is shorter than the windows
                    # of the baseline corrections: as a FIRST operation it only produces refusals, not staleness
                    continue
                yield Ob('pairs', {'op1': a, 'op2': b}, query_ms=30000, timeout_s=900)
