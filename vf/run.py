"""CLI:  python -m vf.run <PROP> [--tier quick|thorough] [--jobs N] [--only SCENARIO] [--replay FILE]

exit 0  every obligation discharged (known findings are printed, not failed)
exit 1  at least one violation reproduced on the real code: 'VIOLATION property=<id> replay=<path>'
exit 3  harness error / inconclusive core obligation / selftest mismatch (neither verdict)
"""
import argparse
import hashlib
import importlib
import json
import multiprocessing as mp
import os
import random
import sys
import time

VERIF = os.path.dirname(os.path.dirname(os.path.abspath(__file__)))
sys.path.insert(0, VERIF)


def _selftest_task(args):
    prop, ob_dict, seed, nvec = args
    from vf import harness
    from vf.engine import install, engine as E
    import importlib
    ob = harness.Ob(**ob_dict)
    # wall budget for one selftest task (pinned symbolic runs are normally seconds; on a changed tree z3's model evaluation
    # over algebraic numbers was seen to run for an hour): z3 is asked to cancel, and the flag of a settled verdict is honoured
    import threading
    import z3 as _z3
    t_start = time.time()
    budget = float(os.environ.get('VF_SELFTEST_BUDGET_S', '420'))
    flag = os.environ.get('VF_SETTLED_FLAG')

    def _watchdog():
        settled_at = None
        while True:
            time.sleep(5)
            now = time.time()
            if flag and settled_at is None and os.path.exists(flag):
                settled_at = now
            if now > t_start + budget or (settled_at is not None and now > settled_at + 60):
                try:
                    _z3.main_ctx().interrupt()
                except Exception:
                    pass
    threading.Thread(target=_watchdog, daemon=True).start()
    lib = install.install()
    mod = importlib.import_module('vf.props.' + prop.lower())
    fn = mod.SCENARIOS[ob.scenario]
    # discover the inputs with one symbolic path
    eng = E.Engine(timeout_ms=ob.query_ms, max_paths=100000)
    holder = {}

    class _Stop(Exception):
        pass

    def body():
        ctx = harness.SymCtx(eng, lib)
        holder['ctx'] = ctx
        try:
            fn(ctx, **ob.params)
        except Exception:
            pass
        return ctx

    def on_path(r, e):
        raise _Stop()

    try:
        eng.explore(body, on_path)
    except _Stop:
        pass
    except Exception as e:
        return {'scenario': ob.scenario, 'params': ob.params, 'cases': 0,
                'mismatches': [{'error': 'input discovery failed: %r' % (e,)}]}
    inputs = holder['ctx'].inputs
    int_inputs = holder['ctx'].int_inputs
    rng = random.Random(hash((seed, ob.key())) & 0xffffffff)
    nice = [-2.0, -1.0, -0.5, 0.0, 0.5, 1.0, 2.0, 3.0]
    vectors = []
    given = getattr(mod, 'SELFTEST_VECTORS', {}).get(ob.scenario)
    for k in range(nvec):
        vec = {}
        for name, (v, lo, hi) in inputs.items():
            lo_ = -1000.0 if lo is None else float(lo)
            hi_ = 1000.0 if hi is None else float(hi)
            if name in int_inputs:
                vec[name] = float(rng.randint(int(lo_), int(hi_)))
                continue
            cand = [x for x in nice if lo_ <= x <= hi_]
            if cand and rng.random() < 0.45:
                vec[name] = rng.choice(cand)
            else:
                a, b = max(lo_, -10.0), min(hi_, 10.0)
                if a > b:
                    a, b = lo_, hi_
                vec[name] = round(rng.uniform(a, b), 3)
        vectors.append(vec)
    if given:
        for g in given(ob.params, inputs):
            vectors.append(g)
    r = harness.selftest_obligation(prop, ob_dict, vectors)
    r['scenario'] = ob.scenario
    r['params'] = ob.params
    return r


def main(argv=None):
    ap = argparse.ArgumentParser()
    ap.add_argument('prop')
    ap.add_argument('--tier', default=os.environ.get('VERIF_TIER', 'quick'))
    ap.add_argument('--jobs', type=int, default=int(os.environ.get('VF_JOBS', '0')) or min(16, os.cpu_count() or 4))
    ap.add_argument('--only', default=None)
    ap.add_argument('--replay', default=None)
    ap.add_argument('--no-selftest', action='store_true')
    ap.add_argument('--verbose', '-v', action='store_true')
    a = ap.parse_args(argv)
    prop = a.prop.upper()
    if a.replay:
        from vf import replay
        sys.argv = ['vf.replay', a.replay]
        return replay.main()
    tier = a.tier if a.tier in ('quick', 'thorough') else 'quick'
    # second back end (cvc5) re-decides this many claim queries per obligation from the SMT-LIB dump of the z3 state
    os.environ.setdefault('VF_CROSS', '1' if tier == 'quick' else '8')
    try:
        seed = int(os.environ.get('VERIF_SEED', '0'))
    except ValueError:
        seed = 0
    t0 = time.time()
    mod = importlib.import_module('vf.props.' + prop.lower())
    from vf import harness, known as K
    obs = list(mod.obligations(tier, seed))
    if a.only:
        obs = [o for o in obs if o.scenario == a.only]
    kn = K.load()
    # one fresh process per obligation, forked from a server that has the heavy modules imported but no solver state:
    # every obligation sees the same z3 state, so results and timings do not depend on scheduling
    try:
        os.setpgrp()
    except OSError:
        pass
    ctx = mp.get_context('forkserver')
    ctx.set_forkserver_preload(['numpy', 'scipy.signal', 'scipy.integrate', 'scipy.linalg', 'scipy.interpolate',
                                'scipy.fftpack', 'z3', 'vf.pdeath', 'vf.harness', 'vf.engine.install', 'vf.engine.models',
                                'vf.engine.scipy_models', 'vf.known'])
    tasks = [(prop, dict(scenario=o.scenario, params=o.params, optional=o.optional, timeout_s=o.timeout_s,
                         query_ms=o.query_ms, max_paths=o.max_paths)) for o in obs]
    # --- selftest: engine + stubs vs the real library on concrete vectors ------------------
    st_cases = 0
    st_mismatch = []
    results = []
    import tempfile
    flagdir = tempfile.mkdtemp(prefix='vf_flag.')
    flag = os.path.join(flagdir, 'settled')
    os.environ['VF_SETTLED_FLAG'] = flag
    os.environ['VF_MAIN_PID'] = str(os.getpid())      # workers exit on their own if this process disappears
    from vf import pdeath
    with ctx.Pool(processes=a.jobs, maxtasksperchild=1, initializer=pdeath.arm) as pool:
        import signal

        def _bye(signum, frame):
            # pool.terminate() can deadlock inside a signal handler: kill the whole process group instead (this process
            # made itself a group leader at start-up; forkserver and workers are members)
            try:
                signal.signal(signal.SIGTERM, signal.SIG_IGN)
                os.killpg(os.getpgrp(), signal.SIGTERM)
                time.sleep(0.3)
                signal.signal(signal.SIGKILL if False else signal.SIGTERM, signal.SIG_DFL)
                os.killpg(os.getpgrp(), signal.SIGKILL)
            finally:
                os._exit(143)
        signal.signal(signal.SIGTERM, _bye)
        signal.signal(signal.SIGINT, _bye)
        st_async = None
        if not a.no_selftest:
            seen = set()
            st_tasks = []
            for t in tasks:
                sc = t[1]['scenario']
                cnt = sum(1 for s in seen if s[0] == sc)
                lim = getattr(mod, 'SELFTEST_PER_SCENARIO', 2)
                if cnt >= lim:
                    continue
                seen.add((sc, json.dumps(t[1]['params'], sort_keys=True)))
                st_tasks.append((prop, t[1], seed, getattr(mod, 'SELFTEST_NVEC', 4)))
            st_async = pool.map_async(_selftest_task, st_tasks, chunksize=1)
        for r in pool.imap_unordered(harness._worker, tasks, chunksize=1):
            results.append(r)
            if r['violations'] and not os.path.exists(flag):
                open(flag, 'w').close()
            if a.verbose:
                print('  %-28s %-60s %-12s paths=%d claims=%d unsat=%d sat=%d unk=%d %.1fs %s' % (
                    r['scenario'], json.dumps(r['params'], sort_keys=True)[:60], r['status'], r['paths'],
                    r['claims'], r['unsat'], r['sat'], r['unknown'], r['wall_s'], r.get('error') or ''), flush=True)
        if st_async is not None:
            for r in st_async.get():
                st_cases += r['cases']
                for m in r['mismatches']:
                    m['scenario'] = r['scenario']
                    m['params'] = r['params']
                    st_mismatch.append(m)
    import shutil
    shutil.rmtree(flagdir, ignore_errors=True)
    # --- aggregate -------------------------------------------------------------------------
    viols, knowns, errors, inconcl, optional_inc = [], {}, [], [], []
    agg = dict(paths=0, claims=0, structural=0, unsat=0, sat=0, unknown=0, queries=0, decisions=0, solver_s=0.0,
               aborted=0, cross_checked=0, cross_agree=0, cross_unknown=0, cross_disagree=0, cross_s=0.0)
    clauses = {}
    samples = []
    for r in results:
        for k in ('paths', 'claims', 'structural', 'unsat', 'sat', 'unknown'):
            agg[k] += r[k]
        st = r.get('stats') or {}
        agg['queries'] += st.get('queries', 0)
        agg['decisions'] += st.get('decisions', 0)
        agg['aborted'] += st.get('aborted', 0)
        agg['solver_s'] += st.get('solver_s', 0.0)
        for k in ('cross_checked', 'cross_agree', 'cross_unknown', 'cross_disagree', 'cross_s'):
            agg[k] += st.get(k, 0)
        for c, (n, d) in r['clauses'].items():
            cc = clauses.setdefault(c, [0, 0])
            cc[0] += n
            cc[1] += d
        for v in r['violations']:
            viols.append(v)
        for k in r['known']:
            knowns.setdefault(k['finding'], k['record'])
        if r['status'] in ('error', 'vacuous'):
            errors.append(r)
        elif r['status'] == 'inconclusive':
            (optional_inc if r['optional'] else inconcl).append(r)
        if r['sample'] is not None and len(samples) < 6:
            samples.append({'scenario': r['scenario'], 'params': r['params'], 'paths': r['paths'],
                            'obligation': r['sample']})
    if not samples:
        for r in results[:3]:
            samples.append({'scenario': r['scenario'], 'params': r['params'], 'paths': r['paths'],
                            'status': r['status']})
    # --- report ----------------------------------------------------------------------------
    rc = 0
    rdir = os.path.join(os.environ.get('VF_REPLAY_DIR') or os.path.join(VERIF, 'replays'), prop)
    os.makedirs(rdir, exist_ok=True)
    seen_v = set()
    for v in viols:
        blob = json.dumps(v, sort_keys=True)
        h = hashlib.sha1(blob.encode()).hexdigest()[:12]
        path = os.path.join(rdir, h + '.json')
        with open(path, 'w') as f:
            f.write(json.dumps(v, indent=1, sort_keys=True))
        key = (v['scenario'], v['clause'])
        if key in seen_v:
            continue
        seen_v.add(key)
        print('VIOLATION property=%s replay=%s' % (prop, path))
        print('  scenario=%s params=%s clause=%s inputs=%s info=%s' % (
            v['scenario'], json.dumps(v['params'], sort_keys=True), v['clause'],
            json.dumps(v['inputs'], sort_keys=True)[:300], v.get('info')))
        rc = 1
    for fid, rec in sorted(knowns.items()):
        f = kn.by_id(fid)
        print('KNOWN-FINDING: property=%s %s [%s] (this run: scenario=%s inputs=%s)' % (
            prop, f['what'], fid, rec['scenario'], json.dumps(rec['inputs'], sort_keys=True)[:160]))
    for r in errors:
        print('HARNESS-ERROR property=%s scenario=%s params=%s: %s' % (
            prop, r['scenario'], json.dumps(r['params'], sort_keys=True), r.get('error')))
        if a.verbose and r.get('trace'):
            print(r['trace'])
        for u in r.get('unconfirmed', [])[:2]:
            print('  unconfirmed counterexample clause=%s inputs=%s replay=%s' % (
                u['clause'], json.dumps(u['inputs'], sort_keys=True)[:300], json.dumps(u['replay'])[:300]))
    for r in inconcl:
        print('INCONCLUSIVE property=%s scenario=%s params=%s: %s' % (
            prop, r['scenario'], json.dumps(r['params'], sort_keys=True), r.get('error')))
    for r in optional_inc:
        print('INCONCLUSIVE(optional) property=%s scenario=%s params=%s: %s' % (
            prop, r['scenario'], json.dumps(r['params'], sort_keys=True), r.get('error')))
    for m in st_mismatch[:10]:
        print('SELFTEST-MISMATCH property=%s %s' % (prop, json.dumps(m, default=str)[:600]))
    if rc == 0 and (errors or inconcl or st_mismatch):
        rc = 3
    wall = time.time() - t0
    discharged = agg['structural'] + agg['unsat']
    meta = getattr(mod, 'META', {})
    ev = {
        'property_id': prop, 'tier': tier, 'seed': seed, 'level': 'model_checking',
        'coverage': {
            'states': max(agg['paths'], 1), 'transitions': max(agg['decisions'], 1),
            'traces_validated_against_impl': st_cases + agg['sat'],
            'obligations': agg['claims'], 'discharged': discharged,
            'evaluations': max(agg['queries'], 1),
            'distinct_nontrivial': agg['unsat'] + agg['sat'] + agg['unknown'],
            'rule': 'one obligation = (scenario, configuration, feasible path, clause); paths are enumerated by the '
                    'decision-replay explorer over the real eqsig code, each feasible path is a conjunction of branch '
                    'conditions over the symbolic inputs; an obligation is non-trivial when its negation did not '
                    'simplify to false syntactically, i.e. a z3 query (pc and not claim) decided it',
            'samples': samples,
            'exhaustive': not (inconcl or optional_inc or errors),
            'configurations': len(results), 'paths': agg['paths'], 'infeasible_or_pruned_paths': agg['aborted'],
            'queries': agg['queries'], 'unsat': agg['unsat'], 'sat': agg['sat'], 'unknown': agg['unknown'],
            'structural_identities': agg['structural'], 'solver_s': round(agg['solver_s'], 2),
            'second_solver': {'solver': 'cvc5 (Python API) on the SMT-LIB 2 dump of the z3 solver state',
                              'queries_rechecked': agg['cross_checked'], 'agree': agg['cross_agree'],
                              'cvc5_unknown_or_timeout': agg['cross_unknown'], 'disagree': agg['cross_disagree'],
                              'solver_s': round(agg['cross_s'], 2),
                              'per_obligation_budget': int(os.environ.get('VF_CROSS', '0') or 0)},
            'inconclusive_obligations': [r['scenario'] + ' ' + json.dumps(r['params'], sort_keys=True)
                                         for r in inconcl + optional_inc],
            'harness_errors': len(errors),
            'per_clause': {c: {'obligations': n, 'discharged': d} for c, (n, d) in sorted(clauses.items())},
            'selftest_cases': st_cases, 'selftest_mismatches': len(st_mismatch),
            'known_findings_hit': sorted(knowns),
            'functions_encoded': meta.get('functions_encoded', []), 'stubs': meta.get('stubs', []),
            'bounds': (meta.get('bounds') or {}).get(tier, meta.get('bounds')),
            'outside_claim': meta.get('outside', []),
            'solver': 'z3 %s (Python API), real arithmetic (QF_NRA/QF_LRA)' % _z3v(),
            'eqsig_src': os.environ.get('EQSIG_SRC', '/repo'),
        },
        'assumptions': meta.get('assumptions', []) + [
            'symbolic values are mathematical reals; concrete coefficients are the doubles the library computes '
            '(round-off accumulated on the symbolic record is outside the claim)',
            'contract models of compiled routines (listed under stubs) are validated differentially on every run '
            '(selftest_cases)'],
        'wall_s': round(wall, 2), 'violations': len(seen_v),
    }
    evdir = os.environ.get('VF_EVIDENCE_DIR') or os.path.join(VERIF, 'evidence')
    os.makedirs(evdir, exist_ok=True)
    with open(os.path.join(evdir, prop + '.json'), 'w') as f:
        json.dump(ev, f, indent=1)
    print('%s tier=%s: %d configurations, %d paths, %d obligations (%d structural, %d unsat, %d sat, %d unknown), '
          '%d queries, solver %.1fs, selftest %d cases/%d mismatches, wall %.1fs -> exit %d' % (
              prop, tier, len(results), agg['paths'], agg['claims'], agg['structural'], agg['unsat'], agg['sat'],
              agg['unknown'], agg['queries'], agg['solver_s'], st_cases, len(st_mismatch), wall, rc))
    return rc


def _z3v():
    import z3
    return z3.get_version_string()


if __name__ == '__main__':
    sys.exit(main())
