"""Independent reference for the SDOF oscillator: exact one-step propagator of
   u'' + 2 xi w u' + w^2 u = a(t),  a(t) linear on the step,  w = 2 pi / T (true pi),
computed as exp(M dt) of the augmented system d/dt [u, v, a, adot] = M [u, v, a, adot] by a
70-digit decimal scaling-and-squaring Taylor series.  Nothing here comes from the
Nigam-Jennings closed forms in eqsig/sdof.py."""
from decimal import Decimal, getcontext
from fractions import Fraction
from functools import lru_cache

PREC = 80
PI = Decimal('3.14159265358979323846264338327950288419716939937510582097494459230781640628620899862803482534211706798')


def _mm(A, B):
    n = len(A)
    return [[sum(A[i][k] * B[k][j] for k in range(n)) for j in range(n)] for i in range(n)]


def _expm(M):
    getcontext().prec = PREC
    n = len(M)
    norm = max(sum(abs(x) for x in row) for row in M)
    s = 0
    while norm > Decimal('0.25'):
        norm /= 2
        s += 1
    Ms = [[x / (Decimal(2) ** s) for x in row] for row in M]
    E = [[Decimal(1) if i == j else Decimal(0) for j in range(n)] for i in range(n)]
    term = [row[:] for row in E]
    for k in range(1, 60):
        term = _mm(term, Ms)
        term = [[x / k for x in row] for row in term]
        E = [[E[i][j] + term[i][j] for j in range(n)] for i in range(n)]
        if max(abs(x) for row in term for x in row) < Decimal(10) ** (-(PREC - 5)):
            break
    for _ in range(s):
        E = _mm(E, E)
    return E


def _frac(d):
    return Fraction(d)


@lru_cache(maxsize=None)
def propagator(T, xi, dt):
    """A (2x2), B (2x2) as Fractions: x[i+1] = A x[i] + B [a_i, a_{i+1}],  x = (u, v)."""
    getcontext().prec = PREC
    T = Decimal(repr(float(T))) if not isinstance(T, Decimal) else T
    T = Decimal(Fraction(float(T)).numerator) / Decimal(Fraction(float(T)).denominator)
    xi_d = Decimal(Fraction(float(xi)).numerator) / Decimal(Fraction(float(xi)).denominator)
    dt_d = Decimal(Fraction(float(dt)).numerator) / Decimal(Fraction(float(dt)).denominator)
    w = 2 * PI / T
    z = Decimal(0)
    M = [[z, Decimal(1), z, z],
         [-w * w, -2 * xi_d * w, Decimal(1), z],
         [z, z, z, Decimal(1)],
         [z, z, z, z]]
    E = _expm([[x * dt_d for x in row] for row in M])
    A = [[_frac(E[0][0]), _frac(E[0][1])], [_frac(E[1][0]), _frac(E[1][1])]]
    # a(t) = a_i + (a_{i+1} - a_i) t/dt : state (a, adot) = (a_i, (a_{i+1}-a_i)/dt)
    dtf = Fraction(float(dt))
    B = [[_frac(E[0][2]) - _frac(E[0][3]) / dtf, _frac(E[0][3]) / dtf],
         [_frac(E[1][2]) - _frac(E[1][3]) / dtf, _frac(E[1][3]) / dtf]]
    return A, B, _frac(w)


def _round(fr, bits=200):
    """keep recurrences cheap: round to a dyadic with `bits` fractional bits (error 2**-bits)."""
    sc = 1 << bits
    return Fraction(round(fr * sc), sc)


@lru_cache(maxsize=None)
def impulse_table(T, xi, dt, n):
    """gu[i][k], gv[i][k]: reference response at sample i to the unit record e_k (zero initial state)."""
    A, B, w = propagator(T, xi, dt)
    gu = [[Fraction(0)] * n for _ in range(n)]
    gv = [[Fraction(0)] * n for _ in range(n)]
    # time invariance: response to e_k is the response to e_0/e_1 pattern shifted; compute directly per k
    for k in range(n):
        u = Fraction(0)
        v = Fraction(0)
        for i in range(n - 1):
            ai = Fraction(1) if i == k else Fraction(0)
            aj = Fraction(1) if i + 1 == k else Fraction(0)
            u, v = (_round(A[0][0] * u + A[0][1] * v + B[0][0] * ai + B[0][1] * aj),
                    _round(A[1][0] * u + A[1][1] * v + B[1][0] * ai + B[1][1] * aj))
            gu[i + 1][k] = u
            gv[i + 1][k] = v
    return gu, gv, w
