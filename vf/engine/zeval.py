"""Numeric evaluation of z3 terms at a concrete point (floats).  Used only to find counterexample *candidates*
quickly (every candidate is replayed on the unpatched library before it counts; a miss proves nothing)."""
import math

import z3

from .scalars import ST


class CannotEval(Exception):
    pass


def _defs_by_name():
    """name of a definitional z3 constant -> how to compute it."""
    out = {}
    for a, (x, den) in ST.root_atoms.items():
        out[str(ST.atoms[a])] = ('root', x, den)
    for a, x in ST.sqrt_atoms.items():
        out.setdefault(str(ST.atoms[a]), ('root', x, 2))
    for name, (is_max, items) in ST.ext_defs.items():
        out[name] = ('ext', is_max, items)
    return out


class Evaluator(object):
    def __init__(self, env):
        self.env = dict(env)        # constant name -> float
        self.defs = _defs_by_name()
        self.cache = {}

    def sr(self, x):
        """float value of an SR."""
        return self.term(x.z)

    def const(self, name):
        if name in self.env:
            return self.env[name]
        d = self.defs.get(name)
        if d is None:
            raise CannotEval(name)
        if d[0] == 'root':
            v = self.sr(d[1])
            if v < 0:
                v = 0.0
            r = v ** (1.0 / d[2])
        else:
            vals = [self.sr(i) for i in d[2]]
            r = max(vals) if d[1] else min(vals)
        self.env[name] = r
        return r

    def term(self, e):
        k = e.get_id()
        if k in self.cache:
            return self.cache[k]
        r = self._term(e)
        self.cache[k] = r
        return r

    def _term(self, e):
        if z3.is_rational_value(e):
            return e.numerator_as_long() / e.denominator_as_long()
        if z3.is_int_value(e):
            return float(e.as_long())
        if z3.is_true(e):
            return True
        if z3.is_false(e):
            return False
        if not z3.is_app(e):
            raise CannotEval(str(e)[:40])
        kind = e.decl().kind()
        ch = e.children()
        if kind == z3.Z3_OP_UNINTERPRETED and not ch:
            return self.const(e.decl().name())
        if kind == z3.Z3_OP_ADD:
            return sum(self.term(c) for c in ch)
        if kind == z3.Z3_OP_MUL:
            r = 1.0
            for c in ch:
                r *= self.term(c)
            return r
        if kind == z3.Z3_OP_SUB:
            r = self.term(ch[0])
            for c in ch[1:]:
                r -= self.term(c)
            return r
        if kind == z3.Z3_OP_UMINUS:
            return -self.term(ch[0])
        if kind == z3.Z3_OP_DIV:
            d = self.term(ch[1])
            if d == 0:
                raise CannotEval('division by zero')
            return self.term(ch[0]) / d
        if kind == z3.Z3_OP_POWER:
            return self.term(ch[0]) ** self.term(ch[1])
        if kind == z3.Z3_OP_ITE:
            return self.term(ch[1]) if self.term(ch[0]) else self.term(ch[2])
        if kind == z3.Z3_OP_TO_REAL:
            return float(self.term(ch[0]))
        if kind == z3.Z3_OP_TO_INT:
            return float(math.floor(self.term(ch[0])))
        if kind == z3.Z3_OP_LE:
            return self.term(ch[0]) <= self.term(ch[1])
        if kind == z3.Z3_OP_LT:
            return self.term(ch[0]) < self.term(ch[1])
        if kind == z3.Z3_OP_GE:
            return self.term(ch[0]) >= self.term(ch[1])
        if kind == z3.Z3_OP_GT:
            return self.term(ch[0]) > self.term(ch[1])
        if kind == z3.Z3_OP_EQ:
            a, b = self.term(ch[0]), self.term(ch[1])
            if isinstance(a, bool) or isinstance(b, bool):
                return a == b
            return abs(a - b) <= 1e-12 * max(1.0, abs(a), abs(b))
        if kind == z3.Z3_OP_DISTINCT:
            a, b = self.term(ch[0]), self.term(ch[1])
            return abs(a - b) > 1e-9 * max(1.0, abs(a), abs(b))
        if kind == z3.Z3_OP_AND:
            return all(self.term(c) for c in ch)
        if kind == z3.Z3_OP_OR:
            return any(self.term(c) for c in ch)
        if kind == z3.Z3_OP_NOT:
            return not self.term(ch[0])
        if kind == z3.Z3_OP_IMPLIES:
            return (not self.term(ch[0])) or self.term(ch[1])
        if kind == z3.Z3_OP_XOR:
            return bool(self.term(ch[0])) != bool(self.term(ch[1]))
        raise CannotEval('op %s' % e.decl().name())
