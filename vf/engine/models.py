"""Contract models of compiled NumPy/SciPy routines (the environment stubs) and handlers
for array functions whose stock implementation would force Python truth values.

Every model here is validated differentially against the real routine by vf.selftest.
"""
import math
from decimal import Decimal, getcontext
from fractions import Fraction

import numpy as np

from . import scalars as S
from .scalars import SR, SB, SC, SymUnsupported, is_sym
from .symarr import SymArr, wrap, wrap0, _plain, _frompy, _obj_array, contains_sym, concretize_bool, _tb

HANDLERS = {}


def handles(*funcs):
    def deco(f):
        for fn in funcs:
            HANDLERS[fn] = f
        return f
    return deco


def _impl(func):
    return func._implementation


# ---------------------------------------------------------------------------------
# where / nonzero / creation
# ---------------------------------------------------------------------------------
@handles(np.where)
def _where(cond, *xy):
    if not xy:
        return np.nonzero(concretize_bool(cond))
    x, y = xy
    c = _plain(cond) if isinstance(cond, (np.ndarray, list, tuple, SB)) else cond
    if isinstance(c, np.ndarray) and c.dtype == object:
        c = _frompy(_tb, 1)(c)
    elif isinstance(c, np.ndarray):
        c = c.astype(bool).astype(object)
    return wrap(np.asarray(_frompy(S.sym_if, 3)(c, _plain(x), _plain(y)), dtype=object))


@handles(np.nonzero)
def _nonzero(a):
    return np.nonzero(concretize_bool(a))


@handles(np.flatnonzero)
def _flatnonzero(a):
    return np.flatnonzero(concretize_bool(a))


@handles(np.count_nonzero)
def _count_nonzero(a, *args, **kw):
    return np.count_nonzero(concretize_bool(a), *args, **kw)


def _filled(shape, v):
    out = np.empty(shape, dtype=object)
    out.fill(v)
    return out.view(SymArr)


def _proto_int(a, dtype):
    return dtype is None and isinstance(a, SymArr) and a.kind == 'i'


@handles(np.zeros_like)
def _zeros_like(a, dtype=None, order='K', subok=True, shape=None, **kw):
    if _proto_int(a, dtype):
        r = _filled(np.shape(a) if shape is None else shape, 0)
        r.kind = 'i'
        return r
    return _filled(np.shape(a) if shape is None else shape, _zero_for(dtype))


@handles(np.ones_like)
def _ones_like(a, dtype=None, order='K', subok=True, shape=None, **kw):
    if _proto_int(a, dtype):
        r = _filled(np.shape(a) if shape is None else shape, 1)
        r.kind = 'i'
        return r
    z = _zero_for(dtype)
    return _filled(np.shape(a) if shape is None else shape, z + 1 if not isinstance(z, complex) else 1 + 0j)


@handles(np.empty_like)
def _empty_like(a, dtype=None, order='K', subok=True, shape=None, **kw):
    if _proto_int(a, dtype):
        r = _filled(np.shape(a) if shape is None else shape, 0)
        r.kind = 'i'
        return r
    return _filled(np.shape(a) if shape is None else shape, _zero_for(dtype))


@handles(np.put)
def _put(a, ind, v, mode='raise'):
    if isinstance(a, SymArr) and a.kind == 'i':
        from .symarr import _trunc_store
        v = _trunc_store(_plain(v) if isinstance(v, (np.ndarray, list, tuple)) else v)
    return np.put._implementation(a, ind, v, mode=mode)


@handles(np.full_like)
def _full_like(a, fill_value, dtype=None, order='K', subok=True, shape=None, **kw):
    return _filled(np.shape(a) if shape is None else shape, fill_value)


def _zero_for(dtype):
    if dtype in (complex, np.complex128, 'complex'):
        return 0j
    return 0.0


@handles(np.copy)
def _copy(a, *args, **kw):
    return wrap(np.array(_plain(a), dtype=object, copy=True))


@handles(np.real)
def _real(a):
    return wrap(_plain(a)).real if isinstance(a, np.ndarray) else a.real


@handles(np.imag)
def _imag(a):
    return wrap(_plain(a)).imag if isinstance(a, np.ndarray) else a.imag


@handles(np.isclose)
def _isclose(a, b, rtol=1e-5, atol=1e-8, equal_nan=False):
    return np.abs(a - b) <= (atol + rtol * np.abs(b))


@handles(np.argmax)
def _argmax(a, axis=None, out=None, **kw):
    return _argext(a, axis, True)


@handles(np.argmin)
def _argmin(a, axis=None, out=None, **kw):
    return _argext(a, axis, False)


def _argext1(vals, is_max):
    """first-occurrence argmax/argmin; forks on the comparisons (concrete index per path)."""
    if vals and all(isinstance(v, (SB, bool, np.bool_)) for v in vals):
        # boolean array: argmax = first True, argmin = first False (0 when there is none)
        for i, v in enumerate(vals):
            if bool(v) == is_max:
                return i
        return 0
    if vals and any(isinstance(v, (SC, complex)) for v in vals):
        # numpy orders complex numbers lexicographically (real part, then imaginary part)
        from .scalars import as_sc
        cv = [as_sc(v) for v in vals]
        best = 0
        for i in range(1, len(cv)):
            a, b = cv[i], cv[best]
            if is_max:
                c = S.sym_or(a.re > b.re, S.sym_and(a.re == b.re, a.im > b.im))
            else:
                c = S.sym_or(a.re < b.re, S.sym_and(a.re == b.re, a.im < b.im))
            if bool(c):
                best = i
        return best
    best = 0
    for i in range(1, len(vals)):
        c = (vals[i] > vals[best]) if is_max else (vals[i] < vals[best])
        if bool(c):
            best = i
    return best


def _argext(a, axis, is_max):
    p = _plain(a)
    if axis is None:
        return _argext1(list(p.ravel()), is_max)
    p = np.moveaxis(p, axis, -1)
    out = np.empty(p.shape[:-1], dtype=np.intp)
    for ix in np.ndindex(*p.shape[:-1]):
        out[ix] = _argext1(list(p[ix]), is_max)
    return out


@handles(np.sort)
def _sort(a, axis=-1, kind=None, order=None, **kw):
    p = _plain(a)
    if p.ndim != 1:
        raise SymUnsupported('sort of a symbolic nd array')
    return SymArr(sorted(p.tolist(), key=_CmpKey))


class _CmpKey(object):
    __slots__ = ('v',)

    def __init__(self, v):
        self.v = v

    def __lt__(self, o):
        return bool(self.v < o.v)


@handles(np.searchsorted)
def _searchsorted(a, v, side='left', sorter=None):
    pa = _plain(a)
    scalar = not isinstance(v, (np.ndarray, list, tuple))
    pv = np.atleast_1d(_plain(v) if not scalar else wrap0(v))
    out = np.empty(pv.shape, dtype=np.intp)
    al = list(pa)
    for ix in np.ndindex(*pv.shape):
        x = pv[ix]
        j = 0
        for e in al:
            c = (e < x) if side == 'left' else (e <= x)
            if bool(c):
                j += 1
            else:
                break
        out[ix] = j
    return int(out[0]) if scalar else out


# ---------------------------------------------------------------------------------
# np.interp : piecewise linear, end clamping / left,right
# ---------------------------------------------------------------------------------
@handles(np.interp)
def _interp(x, xp, fp, left=None, right=None, period=None):
    if period is not None:
        raise SymUnsupported('np.interp(period=)')
    scalar = not isinstance(x, (np.ndarray, list, tuple))
    px = np.atleast_1d(_plain(x) if not scalar else wrap0(x))
    pxp = list(_plain(xp).ravel()) if isinstance(xp, (np.ndarray, list, tuple)) else [xp]
    pfp = list(_plain(fp).ravel())
    n = len(pxp)
    if n == 0:
        raise ValueError('array of sample points is empty')
    if len(pfp) != n:
        raise ValueError('fp and xp are not of the same length.')
    lv = pfp[0] if left is None else left
    rv = pfp[-1] if right is None else right
    out = np.empty(px.shape, dtype=object)
    for ix in np.ndindex(*px.shape):
        xv = px[ix]
        if bool(xv < pxp[0]):
            out[ix] = lv
            continue
        if bool(xv > pxp[-1]):
            out[ix] = rv
            continue
        # largest j with xp[j] <= x  (numpy: binary search; x == xp[-1] returns fp[-1])
        j = 0
        while j + 1 < n and bool(pxp[j + 1] <= xv):
            j += 1
        if j == n - 1:
            out[ix] = pfp[-1]
        else:
            dx = pxp[j + 1] - pxp[j]
            t = (xv - pxp[j]) / dx
            if not is_sym(t) and t == 0:
                out[ix] = pfp[j]
            else:
                out[ix] = (pfp[j + 1] - pfp[j]) * t + pfp[j]
    if scalar:
        return out[0]
    return wrap(out)


# ---------------------------------------------------------------------------------
# np.polyfit : exact least squares through the normal equations
# ---------------------------------------------------------------------------------
def _solve_frac(A, B):
    """Gauss-Jordan over Fractions: returns X with A X = B (B may have symbolic entries)."""
    n = len(A)
    A = [row[:] for row in A]
    B = [row[:] for row in B]
    for c in range(n):
        p = None
        for r in range(c, n):
            if A[r][c] != 0:
                p = r
                break
        if p is None:
            raise np.linalg.LinAlgError('singular normal equations')
        A[c], A[p] = A[p], A[c]
        B[c], B[p] = B[p], B[c]
        inv = 1 / A[c][c]
        A[c] = [v * inv for v in A[c]]
        B[c] = [v * inv for v in B[c]]
        for r in range(n):
            if r != c and A[r][c] != 0:
                f = A[r][c]
                A[r] = [a - f * b for a, b in zip(A[r], A[c])]
                B[r] = [a - f * b for a, b in zip(B[r], B[c])]
    return B


@handles(np.polyfit)
def _polyfit(x, y, deg, rcond=None, full=False, w=None, cov=False):
    if full or w is not None or cov:
        raise SymUnsupported('np.polyfit options')
    px = _plain(x)
    if contains_sym(px):
        raise SymUnsupported('np.polyfit with symbolic abscissae')
    xs = [Fraction(float(v)) for v in px]
    ys = list(_plain(y))
    deg = int(deg)
    if len(xs) != len(ys):
        raise TypeError('expected x and y to have same length')
    if len(xs) <= deg:
        raise SymUnsupported('rank-deficient polyfit (len(x) <= deg)')
    V = [[xv ** (deg - j) for j in range(deg + 1)] for xv in xs]
    # M = (V^T V)^-1 V^T  (concrete, exact), coefficients = M y
    VtV = [[sum(V[i][a] * V[i][b] for i in range(len(xs))) for b in range(deg + 1)] for a in range(deg + 1)]
    Vt = [[V[i][a] for i in range(len(xs))] for a in range(deg + 1)]
    M = _solve_frac(VtV, Vt)
    out = np.empty(deg + 1, dtype=object)
    for a in range(deg + 1):
        tot = 0.0
        for i, yv in enumerate(ys):
            if M[a][i] != 0:
                tot = tot + (yv * SR.const(M[a][i]) if not is_sym(yv) else yv * M[a][i])
        if isinstance(tot, SR) and tot.is_const():
            tot = float(tot.const_value())
        out[a] = tot
    return wrap(out)


# ---------------------------------------------------------------------------------
# FFT : DFT definition with twiddles exact to 2**-90
# ---------------------------------------------------------------------------------
_TW = {}
getcontext().prec = 60
_PI = Decimal('3.14159265358979323846264338327950288419716939937510582097494459')
_SCALE = 1 << 90


def _dec_sin_cos(x):
    """sin, cos of a Decimal by Taylor series after range reduction to |x| <= pi/4 done by caller."""
    getcontext().prec = 60
    s = Decimal(0)
    c = Decimal(0)
    term = Decimal(1)
    k = 0
    while abs(term) > Decimal(10) ** -58:
        if k % 2 == 0:
            c += term if (k // 2) % 2 == 0 else -term
        else:
            s += term if (k // 2) % 2 == 0 else -term
        k += 1
        term = term * x / k
    return s, c


def twiddle(k, n):
    """(cos(2 pi k/n), sin(2 pi k/n)) as Fractions exact to 2**-90 (exact at multiples of a quarter turn)."""
    k %= n
    key = (k, n)
    r = _TW.get(key)
    if r is not None:
        return r
    fr = Fraction(k, n)            # turns
    # reduce to first octant using exact symmetries
    q = fr * 8
    octant = int(q)                # 0..7
    if fr * 4 == int(fr * 4):      # exact quarter turns
        c, s = [(1, 0), (0, 1), (-1, 0), (0, -1)][int(fr * 4)]
        r = (Fraction(c), Fraction(s))
    else:
        # angle within [0, 1/8] turn by reflecting
        quarter = int(fr * 4)
        rem = fr - Fraction(quarter, 4)          # in (0, 1/4)
        swap = rem > Fraction(1, 8)
        if swap:
            rem = Fraction(1, 4) - rem
        x = Decimal(rem.numerator) / Decimal(rem.denominator) * 2 * _PI
        s, c = _dec_sin_cos(x)
        if rem == Fraction(1, 8):
            c = s = (Decimal(2).sqrt() / 2)
        sf = Fraction(int((s * _SCALE).to_integral_value()), _SCALE)
        cf = Fraction(int((c * _SCALE).to_integral_value()), _SCALE)
        if swap:
            sf, cf = cf, sf
        # rotate by quarter turns
        for _ in range(quarter):
            cf, sf = -sf, cf
        r = (cf, sf)
    _TW[key] = r
    return r


def _cmul_tw(x, c, s):
    """x * (c + i s) for x real (SR/float) or SC, c,s Fractions."""
    if isinstance(x, SC):
        re, im = x.re, x.im
    elif isinstance(x, complex):
        re, im = x.real, x.imag
    else:
        re, im = x, 0.0
    def m(v, f):
        if f == 0:
            return 0.0
        if isinstance(v, SR):
            return v * f
        if v == 0:
            return 0.0
        return SR.const(Fraction(float(v)) * f)
    return (_add(m(re, c), -_neg0(m(im, s))) if False else _sub(m(re, c), m(im, s)),
            _add(m(re, s), m(im, c)))


def _neg0(x):
    return x


def _add(a, b):
    return a + b


def _sub(a, b):
    return a - b


def _finish(v):
    if isinstance(v, SR) and v.is_const():
        return float(v.const_value())
    return v


def dft_1d(vals, n, inverse=False):
    """DFT of the first n entries of vals zero padded to n (numpy.fft.fft contract)."""
    m = len(vals)
    xs = [vals[i] if i < m else 0.0 for i in range(n)]
    out = []
    sign = 1 if inverse else -1
    for k in range(n):
        re = 0.0
        im = 0.0
        for j, x in enumerate(xs):
            if not is_sym(x) and x == 0:
                continue
            c, s = twiddle(sign * k * j, n)
            a, b = _cmul_tw(x, c, s)
            re = re + a
            im = im + b
        if inverse:
            re = re / n if not isinstance(re, SR) else re * Fraction(1, n)
            im = im / n if not isinstance(im, SR) else im * Fraction(1, n)
        out.append(SC(_finish(re), _finish(im)))
    return out


def _fft_any(a, n, axis, inverse):
    p = _plain(a)
    if axis is None:
        axis = -1
    p = np.moveaxis(p, axis, -1)
    nn = p.shape[-1] if n is None else int(n)
    if nn < 1:
        raise ValueError('Invalid number of FFT data points (%d) specified.' % nn)
    out = np.empty(p.shape[:-1] + (nn,), dtype=object)
    for ix in np.ndindex(*p.shape[:-1]):
        row = dft_1d(list(p[ix]), nn, inverse)
        for k, v in enumerate(row):
            out[ix + (k,)] = v
    return wrap(np.moveaxis(out, -1, axis))


@handles(np.fft.fft)
def _fft(a, n=None, axis=-1, norm=None, out=None):
    return _fft_any(a, n, axis, False)


@handles(np.fft.ifft)
def _ifft(a, n=None, axis=-1, norm=None, out=None):
    return _fft_any(a, n, axis, True)


@handles(np.fft.rfft)
def _rfft(a, n=None, axis=-1, norm=None, out=None):
    """one-sided DFT of a real record: bins 0..n//2 of the n-point DFT (input cropped / zero padded to n)."""
    p = _plain(a)
    ax = -1 if axis is None else axis
    nn = p.shape[ax] if n is None else int(n)
    full = _plain(_fft_any(a, nn, ax, False))
    full = np.moveaxis(full, ax, -1)[..., :nn // 2 + 1]
    return wrap(np.moveaxis(full, -1, ax))


@handles(np.fft.irfft)
def _irfft(a, n=None, axis=-1, norm=None, out=None):
    """inverse of rfft: Hermitian extension of the m one-sided bins to n points (n = 2(m-1) by default); like NumPy,
    the imaginary parts of bin 0 (and of the Nyquist bin for even n) are ignored, and the result is real."""
    p = _plain(a)
    ax = -1 if axis is None else axis
    p = np.moveaxis(p, ax, -1)
    m = p.shape[-1]
    nn = 2 * (m - 1) if n is None else int(n)
    if nn < 1:
        raise ValueError('Invalid number of data points (%d) specified.' % nn)
    need = nn // 2 + 1
    out_ = np.empty(p.shape[:-1] + (nn,), dtype=object)

    def re_(v):
        return v.re if hasattr(v, 're') else (v.real if isinstance(v, complex) else v)

    def conj_(v):
        from vf.engine import scalars as S_
        if isinstance(v, S_.SC):
            return S_.SC(v.re, -v.im)
        return v.conjugate() if isinstance(v, complex) else v
    for ix in np.ndindex(*p.shape[:-1]):
        half = [p[ix + (k,)] if k < m else 0.0 for k in range(need)]
        half[0] = re_(half[0])
        if nn % 2 == 0:
            half[need - 1] = re_(half[need - 1])
        fullv = list(half) + [conj_(half[nn - k]) for k in range(need, nn)]
        row = dft_1d(fullv, nn, True)
        for k, v in enumerate(row):
            out_[ix + (k,)] = re_(v)
    return wrap(np.moveaxis(out_, -1, ax))


def fftpack_fft(x, n=None, axis=-1, overwrite_x=False):
    if isinstance(x, np.ndarray) and x.dtype == object:
        return _fft_any(x, n, axis, False)
    return _REAL['fftpack.fft'](x, n, axis, overwrite_x)


def fftpack_ifft(x, n=None, axis=-1, overwrite_x=False):
    if isinstance(x, np.ndarray) and x.dtype == object:
        return _fft_any(x, n, axis, True)
    return _REAL['fftpack.ifft'](x, n, axis, overwrite_x)


_REAL = {}
