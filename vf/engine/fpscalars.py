"""SF: IEEE-754 binary64 symbolic scalar (z3 FloatingPoint, round-to-nearest-even) for the floating-point lemmas.

Only what the discrete-decision kernels need: + - * / neg abs and comparisons.  Values are finite by precondition
(the harness assumes not NaN / not inf on the inputs; intermediate overflow to inf is part of the semantics)."""
import numpy as np
import z3

from . import scalars as S
from .scalars import SB, mk_sb, _scalar_array_ufunc

F64 = z3.Float64()
RNE = z3.RNE()


def _lift(o):
    if isinstance(o, SF):
        return o.z
    if isinstance(o, (int, float, np.floating, np.integer)) and not isinstance(o, (bool, np.bool_)):
        return z3.FPVal(float(o), F64)
    return None


class SF(object):
    __slots__ = ('z',)
    __array_ufunc__ = _scalar_array_ufunc
    __array_priority__ = 1000

    def __init__(self, z):
        self.z = z

    @staticmethod
    def var(name):
        return SF(z3.FP(name, F64))

    def _bin(self, o, f, refl=False):
        if isinstance(o, np.ndarray):
            return NotImplemented
        z = _lift(o)
        if z is None:
            return NotImplemented
        return SF(f(RNE, z, self.z) if refl else f(RNE, self.z, z))

    def __add__(self, o):
        return self._bin(o, z3.fpAdd)

    __radd__ = __add__

    def __sub__(self, o):
        return self._bin(o, z3.fpSub)

    def __rsub__(self, o):
        return self._bin(o, z3.fpSub, True)

    def __mul__(self, o):
        return self._bin(o, z3.fpMul)

    __rmul__ = __mul__

    def __truediv__(self, o):
        return self._bin(o, z3.fpDiv)

    def __rtruediv__(self, o):
        return self._bin(o, z3.fpDiv, True)

    def __neg__(self):
        return SF(z3.fpNeg(self.z))

    def __pos__(self):
        return self

    def __abs__(self):
        return SF(z3.fpAbs(self.z))

    def _cmp(self, o, f):
        if isinstance(o, np.ndarray):
            return NotImplemented
        z = _lift(o)
        if z is None:
            return NotImplemented
        return mk_sb(f(self.z, z))

    def __lt__(self, o):
        return self._cmp(o, z3.fpLT)

    def __le__(self, o):
        return self._cmp(o, z3.fpLEQ)

    def __gt__(self, o):
        return self._cmp(o, z3.fpGT)

    def __ge__(self, o):
        return self._cmp(o, z3.fpGEQ)

    def __eq__(self, o):
        if o is None:
            return False
        return self._cmp(o, z3.fpEQ)

    def __ne__(self, o):
        if o is None:
            return True
        return self._cmp(o, z3.fpNEQ)

    def __hash__(self):
        return id(self)

    def __bool__(self):
        return bool(self != 0.0)

    def __repr__(self):
        return 'SF<%s>' % (str(self.z)[:40])

    def finite(self):
        return mk_sb(z3.And(z3.Not(z3.fpIsNaN(self.z)), z3.Not(z3.fpIsInf(self.z))))


def fp_value(model, sf):
    """Python float of an SF under a z3 model (exact)."""
    v = model.eval(sf.z, model_completion=True)
    if z3.fpIsNaN(v) is True or str(v) == 'NaN':
        return float('nan')
    s = str(v)
    if s in ('+oo', 'oo'):
        return float('inf')
    if s == '-oo':
        return float('-inf')
    if s in ('+0.0', '0.0'):
        return 0.0
    if s == '-0.0':
        return -0.0
    sig = v.significand_as_long()
    exp = v.exponent_as_long(biased=False) if hasattr(v, 'exponent_as_long') else int(v.exponent())
    neg = v.sign()
    if v.isSubnormal():
        val = sig * 2.0 ** (-1022 - 52)
    else:
        val = (1.0 + sig / float(1 << 52)) * 2.0 ** exp
    return -val if neg else val
