"""Path explorer (decision replay) and solver wrapper."""
import os
import time
from fractions import Fraction

import z3

from . import scalars as S
from .scalars import ST, PathAbort, SymUnsupported


class Budget(Exception):
    pass


class CrossSolverDisagreement(Exception):
    pass


for _k, _v in (('smt.random_seed', 7), ('nlsat.seed', 7), ('sat.random_seed', 7), ('smt.arith.random_initial_value', False)):
    try:
        z3.set_param(_k, _v)
    except Exception:   # pragma: no cover
        pass


def frac_of(zv):
    """z3 numeric value -> Fraction (algebraic numbers are approximated to 1e-30)."""
    if z3.is_rational_value(zv):
        return Fraction(zv.numerator_as_long(), zv.denominator_as_long())
    if z3.is_algebraic_value(zv):
        a = zv.approx(30)
        return Fraction(a.numerator_as_long(), a.denominator_as_long())
    if z3.is_int_value(zv):
        return Fraction(zv.as_long())
    raise SymUnsupported('cannot read model value %s' % zv)


class Stats(object):
    def __init__(self):
        self.paths = 0
        self.aborted = 0
        self.decisions = 0
        self.forced = 0
        self.queries = 0
        self.q_unsat = 0
        self.q_sat = 0
        self.q_unknown = 0
        self.solver_s = 0.0
        self.branch_unknown = 0
        self.cross_checked = 0       # claim queries re-decided by cvc5 from the SMT-LIB dump of the z3 solver state
        self.cross_agree = 0
        self.cross_unknown = 0
        self.cross_disagree = 0
        self.cross_s = 0.0

    def as_dict(self):
        return dict(self.__dict__)

    def add(self, d):
        for k, v in d.items():
            setattr(self, k, getattr(self, k, 0) + v)


class Engine(object):
    """One engine per obligation.  `explore(fn)` re-runs fn once per feasible path."""

    def __init__(self, timeout_ms=20000, max_paths=200000, max_int_forks=64, branch_ms=4000):
        self.timeout_ms = timeout_ms
        # feasibility checks of branches get a short budget: an undecided branch is explored (sound), it is the
        # claim queries that need the long one
        self.branch_ms = min(branch_ms, timeout_ms)
        self.max_paths = max_paths
        self.max_int_forks = max_int_forks
        self.stats = Stats()
        self.pre = []            # z3 preconditions valid on every path (input bounds etc.)
        self.solver = None
        self.trace = []
        self.prefix = []
        self.pc = []             # constraints added on this path (decisions, assumes, defs)
        self.defs_cache = {}
        self.decided = {}
        self.model = None
        self.root_prefix = None
        self.fast_fail = False
        try:
            self.cross_budget = int(os.environ.get('VF_CROSS', '0') or 0)   # cross-checked claim queries per obligation
        except ValueError:
            self.cross_budget = 0
        S.reset_atoms()
        ST.engine = self

    # -- inputs -------------------------------------------------------------------
    def real(self, name, lo=None, hi=None):
        v = S.SR.var(name)
        if lo is not None:
            self.pre.append(v.z >= S.zval(S.to_frac(lo)))
        if hi is not None:
            self.pre.append(v.z <= S.zval(S.to_frac(hi)))
        return v

    def precondition(self, c):
        if isinstance(c, S.SB):
            self.pre.append(c.z)
        elif not c:
            self.pre.append(z3.BoolVal(False))

    # -- per path -----------------------------------------------------------------
    def _start(self, prefix):
        self.solver = z3.Solver()
        self.solver.set('timeout', self.timeout_ms)
        for c in self.pre:
            self.solver.add(c)
        self.trace = []
        self.prefix = prefix
        self.pc = []
        self.defs_cache = {}
        self.decided = {}
        self.model = None
        ST.pending_defs = {}
        ST.float_sentinels = {}
        self.pc_assump = []
        # split bits apply to the first branching decisions of the very first run; afterwards the queued prefixes
        # already contain them
        self.root_left = list(self.root_prefix) if (self.root_prefix and not prefix) else []
        self.root_used = 0
        # atoms created while executing a path are re-created deterministically
        ST.n_fresh = 0

    def _check(self, *assumptions):
        t = time.time()
        self.solver.set('timeout', self.branch_ms)
        try:
            r = self.solver.check(*assumptions)
        finally:
            self.solver.set('timeout', self.timeout_ms)
        self.stats.solver_s += time.time() - t
        self.stats.queries += 1
        if r == z3.sat:
            self.stats.q_sat += 1
            self.model = self.solver.model()
        elif r == z3.unsat:
            self.stats.q_unsat += 1
        else:
            self.stats.q_unknown += 1
        return r

    def _ensure_model(self):
        if self.model is None:
            r = self._check()
            if r == z3.unsat:
                raise PathAbort()
            if r != z3.sat:
                self.model = None
                return False
        return True

    def model_value(self, x):
        if not self._ensure_model():
            raise SymUnsupported('no model available (solver unknown)')
        return frac_of(self.model.eval(x.z, model_completion=True))

    def add_def(self, zc):
        """Definitional constraint for a fresh atom (total on this path by construction)."""
        self.solver.add(zc)
        self.pc.append(zc)
        self.model = None

    def assume(self, c):
        if isinstance(c, S.SB):
            self.solver.add(c.z)
            self.pc.append(c.z)
            self.model = None
            r = self._check()
            if r == z3.unsat:
                raise PathAbort()
        elif not c:
            raise PathAbort()

    def decide(self, f):
        key = f.get_id()
        if key in self.decided:
            return self.decided[key]
        idx = len(self.trace)
        self.stats.decisions += 1
        if idx < len(self.prefix):
            val = self.prefix[idx]
        else:
            model_t = model_f = None
            if self.model is not None:
                mv = self.model.eval(f, model_completion=True)
                if z3.is_true(mv):
                    model_t = self.model
                elif z3.is_false(mv):
                    model_f = self.model
            if model_t is not None:
                can_t = True
            else:
                r = self._check(f)
                can_t = r != z3.unsat
                if r == z3.sat:
                    model_t = self.model
                if r == z3.unknown:
                    self.stats.branch_unknown += 1
            if model_f is not None:
                can_f = True
            else:
                r = self._check(z3.Not(f))
                can_f = r != z3.unsat
                if r == z3.sat:
                    model_f = self.model
                if r == z3.unknown:
                    self.stats.branch_unknown += 1
            if can_t and can_f:
                if self.root_left:
                    # externally fixed split bit for this (genuinely branching) decision: no alternative queued
                    val = self.root_left.pop(0)
                    self.root_used += 1
                else:
                    val = True
                    self.pending.append(self.trace + [False])
                self.model = model_t if val else model_f
            elif can_t:
                val = True
                self.stats.forced += 1
                self.model = model_t
            elif can_f:
                val = False
                self.stats.forced += 1
                self.model = model_f
            else:
                raise PathAbort()
        self.trace.append(val)
        c = f if val else z3.Not(f)
        self.solver.add(c)
        self.pc.append(c)
        if self.model is not None:
            mv = self.model.eval(c, model_completion=True)
            if not z3.is_true(mv):
                self.model = None
        self.decided[key] = val
        return val

    # -- exploration --------------------------------------------------------------
    def explore(self, fn, on_path):
        """Run fn() once per feasible path; on_path(result_or_exception, is_exc) per completed path."""
        self.pending = [[]]
        while self.pending:
            if self.stats.paths + self.stats.aborted >= self.max_paths:
                raise Budget('path budget %d exhausted' % self.max_paths)
            prefix = self.pending.pop()
            self._start(prefix)
            try:
                try:
                    res = fn()
                    exc = False
                except PathAbort:
                    self.stats.aborted += 1
                    continue
                except (SymUnsupported, Budget):
                    raise
                except Exception as e:   # library raised on this path
                    res = e
                    exc = True
                if self.root_left:
                    # fewer branching decisions than split bits: the path is owned by the all-True remainder only
                    if not all(self.root_left):
                        self.stats.aborted += 1
                        continue
                self.stats.paths += 1
                on_path(res, exc)
            except PathAbort:
                self.stats.aborted += 1
                continue

    # -- queries on the current path ----------------------------------------------
    def query(self, neg_claim, timeout_ms=None):
        """Is pc /\\ neg_claim satisfiable?  Returns ('unsat'|'sat'|'unknown', model)."""
        self.solver.set('timeout', self.timeout_ms)
        if timeout_ms:
            self.solver.set('timeout', timeout_ms)
        self.solver.push()
        try:
            self.solver.add(neg_claim)
            t = time.time()
            r = self.solver.check()
            self.stats.solver_s += time.time() - t
            self.stats.queries += 1
            if r == z3.sat:
                self.stats.q_sat += 1
                self._cross('sat')
                return 'sat', self.solver.model()
            if r == z3.unsat:
                self.stats.q_unsat += 1
                self._cross('unsat')
                return 'unsat', None
            # retry with the nlsat tactic on the flattened formula
            if self.fast_fail:
                self.stats.q_unknown += 1
                return 'unknown', None
            r2, m2 = self._retry_nlsat(neg_claim, timeout_ms or self.timeout_ms)
            if r2 == 'unknown':
                self.stats.q_unknown += 1
            elif r2 == 'sat':
                self.stats.q_sat += 1
            else:
                self.stats.q_unsat += 1
            return r2, m2
        finally:
            self.solver.pop()
            if timeout_ms:
                self.solver.set('timeout', self.timeout_ms)

    def _cross(self, verdict):
        """Second back end: the current z3 solver state (preconditions, path condition, definitions, negated claim) is
        dumped as SMT-LIB 2 and decided again by cvc5.  A definite answer that differs from z3's is a harness error
        (CrossSolverDisagreement); cvc5 'unknown'/timeouts are only counted."""
        if self.cross_budget <= 0 or self.stats.cross_checked >= self.cross_budget:
            return
        try:
            import cvc5
        except ImportError:
            return
        t = time.time()
        got = 'unknown'
        try:
            txt = self.solver.to_smt2().replace('(check-sat)', '')
            slv = cvc5.Solver()
            slv.setOption('tlimit-per', os.environ.get('VF_CROSS_MS', '10000'))
            sm = cvc5.SymbolManager(slv)
            prs = cvc5.InputParser(slv, sm)
            prs.setStringInput(cvc5.InputLanguage.SMT_LIB_2_6, '(set-logic ALL)\n' + txt, 'q')
            while True:
                cmd = prs.nextCommand()
                if cmd.isNull():
                    break
                cmd.invoke(slv, sm)
            r = slv.checkSat()
            got = 'sat' if r.isSat() else ('unsat' if r.isUnsat() else 'unknown')
        except Exception:
            got = 'unknown'
        self.stats.cross_checked += 1
        self.stats.cross_s += time.time() - t
        if got == 'unknown':
            self.stats.cross_unknown += 1
        elif got == verdict:
            self.stats.cross_agree += 1
        else:
            self.stats.cross_disagree += 1
            raise CrossSolverDisagreement('z3 says %s, cvc5 says %s on the same SMT-LIB query' % (verdict, got))

    def _retry_nlsat(self, neg_claim, timeout_ms):
        try:
            s = z3.Then('simplify', 'purify-arith', 'elim-term-ite', 'solve-eqs', 'qfnra-nlsat').solver()
            s.set('timeout', timeout_ms)
            for c in self.pre:
                s.add(c)
            for c in self.pc:
                s.add(c)
            s.add(neg_claim)
            t = time.time()
            r = s.check()
            self.stats.solver_s += time.time() - t
            self.stats.queries += 1
            if r == z3.sat:
                return 'sat', s.model()
            if r == z3.unsat:
                return 'unsat', None
        except z3.Z3Exception:
            pass
        return 'unknown', None

    def all_constraints(self):
        return list(self.pre) + list(self.pc)
