"""Load eqsig from the tree under test and rebind module globals to the symbolic proxies.

Nothing in the library source is copied or rewritten: the code objects executed are the
ones compiled from EQSIG_SRC's current files on this run.
"""
import builtins
import importlib
import os
import sys
import types

import numpy as np

from . import scalars as S
from . import models
from .symarr import SymArr, wrap, contains_sym, _obj_array, _seq_has_sym

SRC = os.environ.get('EQSIG_SRC', '/repo')
_lib = None
_installed = False


def load_lib():
    """Import eqsig from SRC (first on sys.path) and return the package."""
    global _lib
    if _lib is None:
        if sys.path[0] != SRC:
            sys.path.insert(0, SRC)
        import warnings
        warnings.simplefilter('ignore')
        import eqsig
        if not os.path.abspath(eqsig.__file__).startswith(os.path.abspath(SRC) + os.sep):
            raise RuntimeError('eqsig imported from %s, expected %s' % (eqsig.__file__, SRC))
        _lib = eqsig
    return _lib


# ---------------------------------------------------------------------------------
class NpProxy(types.ModuleType):
    """Forwards to numpy except for the array-less constructors, which must not force float64."""

    def __init__(self):
        types.ModuleType.__init__(self, 'numpy_proxy')

    def __getattr__(self, name):
        v = getattr(np, name)
        h = models.HANDLERS.get(v) if callable(v) else None
        if h is None:
            return v

        def routed(*a, **k):
            # list/tuple arguments holding symbolic scalars do not trigger __array_function__
            for x in a:
                if isinstance(x, (list, tuple)) and _seq_has_sym(x):
                    return h(*a, **k)
                if isinstance(x, (S.SR, S.SB, S.SC)):
                    return h(*a, **k)
            return v(*a, **k)
        routed.__name__ = name
        return routed

    @staticmethod
    def array(obj, dtype=None, *a, **k):
        if isinstance(obj, SymArr):
            r = obj.copy()
            if dtype in (float, np.float64, 'float'):
                r.kind = 'f'
            return r
        if isinstance(obj, np.ndarray) and obj.dtype == object and contains_sym(obj):
            return SymArr(obj)
        if isinstance(obj, (list, tuple)) and _seq_has_sym(obj):
            return SymArr(obj)
        if isinstance(obj, (S.SR, S.SC, S.SB)):
            return SymArr(obj)
        return np.array(obj, dtype, *a, **k) if dtype is not None else np.array(obj, *a, **k)

    @staticmethod
    def asarray(obj, dtype=None, *a, **k):
        if isinstance(obj, SymArr):
            return obj
        if isinstance(obj, np.ndarray) and obj.dtype != object:
            # keep NumPy's no-copy semantics for native arrays (aliasing with the caller's array matters)
            return np.asarray(obj, dtype, *a, **k) if dtype is not None else np.asarray(obj, *a, **k)
        return NpProxy.array(obj, dtype, *a, **k)

    @staticmethod
    def genfromtxt(*a, **k):
        from . import textio
        if textio.STATE['active']:
            return textio.genfromtxt(*a, **k)
        return np.genfromtxt(*a, **k)

    @staticmethod
    def arange(*a, **k):
        if any(isinstance(x, S.SR) for x in a):
            a = [S.sym_unique_value(x) if isinstance(x, S.SR) else x for x in a]
        return np.arange(*a, **k)

    @staticmethod
    def zeros(shape, dtype=float, *a, **k):
        if dtype in (int, np.int64, np.intp, bool, 'int'):
            return np.zeros(shape, dtype)
        return models._filled(shape, 0j if dtype in (complex, np.complex128) else 0.0)

    @staticmethod
    def ones(shape, dtype=float, *a, **k):
        if dtype in (int, np.int64, np.intp, bool, 'int'):
            return np.ones(shape, dtype)
        return models._filled(shape, 1.0)

    @staticmethod
    def empty(shape, dtype=float, *a, **k):
        return NpProxy.zeros(shape, dtype)

    @staticmethod
    def zeros_like(a, dtype=None, **k):
        if _keeps_native_dtype(a, dtype):
            return np.zeros_like(a, dtype=dtype, **k)
        return models._zeros_like(a, dtype=dtype, **k)

    @staticmethod
    def ones_like(a, dtype=None, **k):
        if _keeps_native_dtype(a, dtype):
            return np.ones_like(a, dtype=dtype, **k)
        return models._ones_like(a, dtype=dtype, **k)


def _keeps_native_dtype(a, dtype):
    """integer/bool prototypes keep NumPy's real (truncating) semantics; float prototypes become SymArr, which
    behaves identically for floats and can also hold symbolic values assigned later."""
    if dtype is not None and dtype not in (int, bool, np.int64, np.intp, np.bool_):
        return False
    if isinstance(a, np.ndarray) and a.dtype != object:
        return a.dtype.kind in 'iub' or dtype is not None
    if isinstance(a, (list, tuple)) and not _seq_has_sym(a):
        try:
            return np.asarray(a).dtype.kind in 'iub'
        except Exception:
            return False
    return False


NP = NpProxy()


def sym_builtin_max(*args, **kw):
    return _minmax(builtins.max, S.sym_max, args, kw)


def sym_builtin_min(*args, **kw):
    return _minmax(builtins.min, S.sym_min, args, kw)


def _minmax(real, merge, args, kw):
    if kw:
        return real(*args, **kw)
    items = list(args[0]) if len(args) == 1 else list(args)
    if not any(S.is_sym(x) for x in items):
        return real(items)
    if not items:
        raise ValueError('arg is an empty sequence')
    if all(isinstance(x, (S.SR, int, float)) for x in items):
        return S.sym_extreme_n(items, merge is S.sym_max)
    r = items[0]
    for x in items[1:]:
        r = merge(r, x)
    return r


def _wrapping(real):
    def f(*a, **k):
        return wrap(real(*a, **k))
    f.__name__ = getattr(real, '__name__', 'wrapped')
    f.__wrapped__ = real
    return f


def install():
    """Rebind np / max / min in every eqsig module; wrap the SciPy helpers eqsig calls."""
    global _installed
    lib = load_lib()
    if _installed:
        return lib
    import scipy.integrate
    import scipy.linalg
    import scipy.signal
    import scipy.interpolate
    import scipy.fftpack
    from . import scipy_models as sm
    repl = {}

    def swap(mod, name, new):
        old = getattr(mod, name)
        repl[id(old)] = (old, new)
        setattr(mod, name, new)

    swap(scipy.integrate, 'cumulative_trapezoid', _wrapping(scipy.integrate.cumulative_trapezoid))
    swap(scipy.integrate, 'trapezoid', _wrapping(scipy.integrate.trapezoid))
    swap(scipy.linalg, 'toeplitz', sm.toeplitz)
    models._REAL['fftpack.fft'] = scipy.fftpack.fft
    models._REAL['fftpack.ifft'] = scipy.fftpack.ifft
    swap(scipy.fftpack, 'fft', models.fftpack_fft)
    swap(scipy.fftpack, 'ifft', models.fftpack_ifft)
    sm.REAL['filtfilt'] = scipy.signal.filtfilt
    swap(scipy.signal, 'filtfilt', sm.filtfilt)
    sm.REAL['resample'] = scipy.signal.resample
    swap(scipy.signal, 'resample', sm.resample)
    sm.REAL['interp1d'] = scipy.interpolate.interp1d
    swap(scipy.interpolate, 'interp1d', sm.interp1d)
    sm.REAL['detrend'] = scipy.signal.detrend
    for name, mod in list(sys.modules.items()):
        if mod is None or not (name == 'eqsig' or name.startswith('eqsig.')):
            continue
        d = mod.__dict__
        if d.get('np') is np:
            d['np'] = NP
        d['max'] = sym_builtin_max
        d['min'] = sym_builtin_min
        if name == 'eqsig.loader':
            from . import textio
            d['float'] = textio.sym_float
        for k, v in list(d.items()):
            r = repl.get(id(v))
            if r is not None and r[0] is v:
                d[k] = r[1]
    _installed = True
    return lib
