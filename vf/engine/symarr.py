"""SymArr: an object-dtype ndarray subclass that carries symbolic scalars through real NumPy."""
import math
import operator

import numpy as np

from . import scalars as S
from .scalars import SR, SB, SC, SymUnsupported, NonFinite, is_sym

_F = {}


def _frompy(f, nin):
    k = (f, nin)
    u = _F.get(k)
    if u is None:
        u = _F[k] = np.frompyfunc(f, nin, 1)
    return u


def wrap0(x):
    w = np.empty((), dtype=object)
    w[()] = x
    return w


def wrap(res):
    """object ndarrays -> SymArr (recursively through tuples/lists)."""
    if isinstance(res, SymArr):
        return res
    if isinstance(res, np.ndarray):
        if res.dtype == object:
            return res.view(SymArr)
        return res
    if isinstance(res, tuple):
        return tuple(wrap(r) for r in res)
    return res


def contains_sym(a):
    for x in np.asarray(a, dtype=object).flat:
        if is_sym(x):
            return True
    return False


def _plain(x):
    if isinstance(x, np.ndarray):
        b = x.view(np.ndarray) if type(x) is not np.ndarray else x
        if b.dtype != object:
            b = b.astype(object)
        return b
    if is_sym(x):
        return wrap0(x)
    if isinstance(x, (list, tuple)):
        a = np.asarray(x) if not _seq_has_sym(x) else _obj_array(x)
        return a.astype(object) if a.dtype != object else a
    return x


def _seq_has_sym(x):
    for e in x:
        if is_sym(e):
            return True
        if isinstance(e, (list, tuple)) and _seq_has_sym(e):
            return True
        if isinstance(e, np.ndarray) and e.dtype == object:
            return True
    return False


def _obj_array(x):
    """np.array(x, dtype=object) that never tries to iterate a symbolic scalar."""
    if isinstance(x, np.ndarray):
        return x.astype(object)
    if isinstance(x, (list, tuple)):
        if len(x) and all(isinstance(e, (list, tuple, np.ndarray)) for e in x):
            rows = [_obj_array(e) for e in x]
            out = np.empty((len(rows),) + rows[0].shape, dtype=object)
            for i, r in enumerate(rows):
                out[i] = r
            return out
        out = np.empty(len(x), dtype=object)
        for i, e in enumerate(x):
            out[i] = e.item() if isinstance(e, np.generic) else e
        return out
    return wrap0(x)


# ---------------------------------------------------------------------------------
# elementwise semantics
# ---------------------------------------------------------------------------------
def _np1(uf):
    def f(x):
        if is_sym(x):
            raise SymUnsupported('%s of a symbolic value' % uf.__name__)
        with np.errstate(all='ignore'):
            if isinstance(x, complex):
                return complex(uf(np.complex128(x)))
            r = uf(np.float64(x))
            return r.item()
    return f


def _div(a, b):
    if is_sym(a) or is_sym(b):
        return a / b
    with np.errstate(all='ignore'):
        if isinstance(a, complex) or isinstance(b, complex):
            return complex(np.complex128(a) / np.complex128(b))
        return float(np.float64(a) / np.float64(b))


def _pow(a, b):
    if is_sym(a) or is_sym(b):
        if isinstance(b, SR):
            if not b.is_const():
                raise SymUnsupported('symbolic exponent')
            b = b.const_value()
        if is_sym(a):
            return a ** b
        raise SymUnsupported('symbolic exponent')
    with np.errstate(all='ignore'):
        if isinstance(a, complex):
            return complex(np.power(np.complex128(a), b))
        if isinstance(a, int) and isinstance(b, int) and b >= 0:
            return a ** b
        return float(np.power(np.float64(a), b))


def _abs(a):
    return S.sym_abs(a) if is_sym(a) else abs(a)


def _sign(a):
    if is_sym(a):
        # fork to a concrete sign (keeps everything downstream linear; np.sign is applied to scalars in eqsig)
        one = 1 if S.is_int_valued(a) else 1.0
        if bool(a > 0):
            return one
        if bool(a < 0):
            return -one
        return one * 0
    return float(np.sign(a)) if isinstance(a, float) else int(np.sign(a))


def _sqrt(a):
    if is_sym(a):
        return S.sym_sqrt(a)
    with np.errstate(all='ignore'):
        return float(np.sqrt(np.float64(a)))


def _floor(a):
    return float(S.sym_floor(a)) if is_sym(a) else float(math.floor(a))


def _ceil(a):
    return float(S.sym_ceil(a)) if is_sym(a) else float(math.ceil(a))


def _conj(a):
    if isinstance(a, (SR, SC)):
        return a.conjugate()
    return a.conjugate() if isinstance(a, complex) else a


def _land(a, b):
    return S.sym_and(_tb(a), _tb(b))


def _lor(a, b):
    return S.sym_or(_tb(a), _tb(b))


def _lnot(a):
    return S.sym_not(_tb(a))


def _tb(a):
    if isinstance(a, SB) or isinstance(a, (bool, np.bool_)):
        return a
    if isinstance(a, SR):
        return a != 0
    return bool(a)


def _band(a, b):
    if isinstance(a, (SB, bool, np.bool_)) and isinstance(b, (SB, bool, np.bool_)):
        return S.sym_and(a, b)
    return a & b


def _bor(a, b):
    if isinstance(a, (SB, bool, np.bool_)) and isinstance(b, (SB, bool, np.bool_)):
        return S.sym_or(a, b)
    return a | b


def _inv(a):
    if isinstance(a, (SB, bool, np.bool_)):
        return S.sym_not(a)
    return ~a


def _clip(a, lo, hi):
    if lo is not None:
        a = S.sym_max(a, lo)
    if hi is not None:
        a = S.sym_min(a, hi)
    return a


def _isfinite(a):
    if is_sym(a):
        return True
    return bool(np.isfinite(a))


def _isnan(a):
    if is_sym(a):
        return False
    return bool(np.isnan(a))


def _mul(a, b):
    if isinstance(a, (bool, np.bool_)) and isinstance(b, (bool, np.bool_)):
        return a and b
    return a * b


def _mod(a, b):
    if is_sym(a) or is_sym(b):
        raise SymUnsupported('mod of a symbolic value')
    return float(np.mod(a, b)) if isinstance(a, float) or isinstance(b, float) else int(np.mod(a, b))


EW = {
    np.add: operator.add, np.subtract: operator.sub, np.multiply: _mul, np.true_divide: _div,
    np.negative: operator.neg, np.positive: operator.pos, np.power: _pow, np.absolute: _abs,
    np.sign: _sign, np.sqrt: _sqrt, np.square: lambda a: a * a, np.reciprocal: lambda a: _div(1.0, a),
    np.less: operator.lt, np.less_equal: operator.le, np.greater: operator.gt,
    np.greater_equal: operator.ge, np.equal: operator.eq, np.not_equal: operator.ne,
    np.maximum: S.sym_max, np.minimum: S.sym_min, np.fmax: S.sym_max, np.fmin: S.sym_min,
    np.logical_and: _land, np.logical_or: _lor, np.logical_not: _lnot,
    np.bitwise_and: _band, np.bitwise_or: _bor, np.invert: _inv,
    np.conjugate: _conj, np.floor: _floor, np.ceil: _ceil,
    np.isfinite: _isfinite, np.isnan: _isnan, np.mod: _mod,
    np.exp: _np1(np.exp), np.log: _np1(np.log), np.log2: _np1(np.log2), np.log10: _np1(np.log10),
    np.sin: _np1(np.sin), np.cos: _np1(np.cos), np.tan: _np1(np.tan), np.radians: _np1(np.radians),
    np.deg2rad: _np1(np.deg2rad), np.arctan: _np1(np.arctan), np.tanh: _np1(np.tanh),
}


def _np2(uf):
    def f(a, b):
        if is_sym(a) or is_sym(b):
            raise SymUnsupported('%s of a symbolic value (no decision procedure)' % uf.__name__)
        with np.errstate(all='ignore'):
            return float(uf(np.float64(a), np.float64(b)))
    return f


def _trunc(a):
    return float(S.sym_trunc(a)) if is_sym(a) else float(math.trunc(a))


def _rint(a):
    # round half to even: forks over the feasible integers like floor/ceil
    if not is_sym(a):
        return float(np.rint(a))
    f = S.sym_floor(a)
    d = a - f
    if bool(d < 0.5):
        return float(f)
    if bool(d > 0.5):
        return float(f) + 1.0
    return float(f) if int(f) % 2 == 0 else float(f) + 1.0


def _floordiv(a, b):
    if is_sym(a) or is_sym(b):
        return _floor(_div(a, b))
    return float(np.floor_divide(a, b)) if isinstance(a, float) or isinstance(b, float) else int(np.floor_divide(a, b))


def _hypot(a, b):
    return _sqrt(a * a + b * b)


def _lxor(a, b):
    a, b = _tb(a), _tb(b)
    return S.sym_or(S.sym_and(a, S.sym_not(b)), S.sym_and(S.sym_not(a), b))


def _signbit(a):
    return (a < 0) if is_sym(a) else bool(np.signbit(a))


def _heaviside(a, h):
    if is_sym(a):
        return S.sym_if(a > 0, 1.0, S.sym_if(a < 0, 0.0, h))
    return float(np.heaviside(a, h)) if not is_sym(h) else (1.0 if a > 0 else (0.0 if a < 0 else h))


def _copysign(a, b):
    if is_sym(a) or is_sym(b):
        return S.sym_if(b >= 0, _abs(a), -_abs(a))
    return float(np.copysign(a, b))


def _isinf(a):
    return False if is_sym(a) else bool(np.isinf(a))


EW.update({
    np.fabs: _abs, np.trunc: _trunc, np.rint: _rint, np.floor_divide: _floordiv, np.hypot: _hypot,
    np.float_power: _pow, np.logical_xor: _lxor, np.signbit: _signbit, np.heaviside: _heaviside,
    np.copysign: _copysign, np.isinf: _isinf, np.cbrt: lambda a: (a ** (1.0 / 3.0)) if is_sym(a) else float(np.cbrt(a)),
    np.remainder: _mod, np.fmod: _np2(np.fmod), np.arctan2: _np2(np.arctan2),
    np.sinh: _np1(np.sinh), np.cosh: _np1(np.cosh), np.arcsin: _np1(np.arcsin), np.arccos: _np1(np.arccos),
    np.expm1: _np1(np.expm1), np.log1p: _np1(np.log1p), np.exp2: _np1(np.exp2), np.degrees: _np1(np.degrees),
    np.rad2deg: _np1(np.rad2deg), np.arcsinh: _np1(np.arcsinh), np.arctanh: _np1(np.arctanh),
})
try:
    EW[np.clip] = _clip
    from numpy._core import umath as _um          # np.clip(a, lo, hi) with both bounds dispatches to this ufunc
    EW[_um.clip] = _clip
except Exception:   # pragma: no cover
    pass






INT_KEEP = {np.add, np.subtract, np.multiply, np.negative, np.positive, np.absolute, np.sign, np.maximum, np.minimum,
            np.square, np.conjugate}


def _operand_is_int(x):
    if isinstance(x, SymArr):
        return x.kind == 'i'
    if isinstance(x, np.ndarray):
        return x.dtype.kind in 'iu'
    if isinstance(x, (list, tuple)):
        return all(_operand_is_int(e) for e in x)
    return S.is_int_valued(x)


class SymArr(np.ndarray):
    """kind 'f': real valued (default); kind 'i': integer dtype semantics (results of integer arithmetic stay
    integer, stores truncate toward zero like NumPy's unsafe cast, in-place float results are rejected)."""
    __array_priority__ = 100
    kind = 'f'

    def __new__(cls, data, kind='f'):
        a = _obj_array(data) if not isinstance(data, np.ndarray) else (
            data.astype(object) if data.dtype != object else data.copy())
        r = a.view(cls)
        r.kind = kind
        return r

    def __array_finalize__(self, obj):
        self.kind = getattr(obj, 'kind', 'f')

    # -- ufuncs -------------------------------------------------------------------
    def __array_ufunc__(self, ufunc, method, *inputs, out=None, **kw):
        f = EW.get(ufunc)
        if f is None:
            raise SymUnsupported('ufunc %s on a symbolic array' % ufunc.__name__)
        for k in ('dtype', 'casting', 'subok', 'order', 'signature'):
            kw.pop(k, None)
        w = kw.pop('where', True)
        masked = w is not True and w is not np._NoValue
        if masked and (method != '__call__' or out is None):
            raise SymUnsupported('ufunc where= without out= / on a reduction')
        ins = [_plain(x) for x in inputs]
        uf = _frompy(f, ufunc.nin)
        if method == '__call__' and masked:
            # f is evaluated only where the mask holds (np.divide(..., where=den > 0) must not divide by zero elsewhere);
            # the other positions keep the value of out=
            o = out[0] if isinstance(out, tuple) else out
            ob = _plain(o) if isinstance(o, np.ndarray) else np.asarray(o, dtype=object)
            mk = _plain(w) if isinstance(w, np.ndarray) else np.asarray(w, dtype=object)
            bc = np.broadcast_arrays(*([np.asarray(x, dtype=object) for x in ins] + [np.asarray(mk, dtype=object), ob]))
            res = np.empty(bc[-1].shape, dtype=object)
            for ix in np.ndindex(*res.shape):
                m = bc[-2][ix]
                if isinstance(m, SB):
                    if m.is_const() if hasattr(m, 'is_const') else False:
                        m = bool(m)
                if isinstance(m, SB):
                    res[ix] = S.sym_if(m, f(*[b[ix] for b in bc[:-2]]), bc[-1][ix]) if not bool(S.sym_not(m)) else bc[-1][ix]
                elif m:
                    res[ix] = f(*[b[ix] for b in bc[:-2]])
                else:
                    res[ix] = bc[-1][ix]
        elif method == '__call__':
            res = uf(*ins)
        elif method == 'reduce' and ufunc in (np.maximum, np.minimum) and ins[0].ndim >= 1 \
                and kw.get('initial', None) in (None, np._NoValue):
            res = _reduce_extreme(ins[0], kw.get('axis', 0), kw.get('keepdims', False), ufunc is np.maximum)
        elif method in ('reduce', 'accumulate'):
            a = ins[0]
            if method == 'reduce':
                if kw.get('initial', None) is None or kw.get('initial') is np._NoValue:
                    kw.pop('initial', None)
                    ax = kw.get('axis', 0)
                    empty = a.size == 0 if ax is None else any(
                        a.shape[x] == 0 for x in (ax if isinstance(ax, tuple) else (ax,)))
                    if empty:
                        if ufunc is np.add:
                            kw['initial'] = 0.0
                        elif ufunc is np.multiply:
                            kw['initial'] = 1.0
                        else:
                            raise ValueError('zero-size array to reduction operation %s which has no identity'
                                             % ufunc.__name__)
                if kw.get('axis', 0) is None:
                    a = a.ravel()
                    kw['axis'] = 0
                    kw.pop('keepdims', None)
            res = getattr(uf, method)(a, **kw)
        elif method == 'outer':
            res = uf.outer(*ins)
        else:
            raise SymUnsupported('ufunc method %s' % method)
        res = wrap(res)
        rk = 'i' if (ufunc in INT_KEEP and all(_operand_is_int(x) for x in inputs)) else 'f'
        if isinstance(res, SymArr):
            res.kind = rk
        if out is not None:
            o = out[0] if isinstance(out, tuple) else out
            if o is not None:
                if isinstance(o, SymArr) and o.kind == 'i' and rk != 'i':
                    raise TypeError("Cannot cast ufunc '%s' output from dtype('float64') to dtype('int64') with casting "
                                    "rule 'same_kind'" % ufunc.__name__)
                if isinstance(o, np.ndarray) and o.dtype != object:
                    if isinstance(res, np.ndarray) and contains_sym(res):
                        # `float_array += symbolic`: the target cannot hold symbolic values; Python rebinds the
                        # name to whatever __iadd__ returns, so hand back a new symbolic array instead
                        return res
                    o[...] = np.array(_plain(res).tolist(), dtype=o.dtype) if isinstance(res, np.ndarray) else res
                    return o
                o.view(np.ndarray)[...] = res
                return o
        return res

    # -- array functions ----------------------------------------------------------
    def __array_function__(self, func, types, args, kwargs):
        from . import models
        h = models.HANDLERS.get(func)
        if h is not None:
            return h(*args, **kwargs)
        impl = getattr(func, '_implementation', None)
        if impl is None:
            raise SymUnsupported('array function %r' % func)
        res = wrap(impl(*args, **kwargs))
        if isinstance(res, SymArr) and func in KIND_KEEPING:
            arrs = [x for x in _iter_arrays(args)]
            if arrs and all(_operand_is_int(x) for x in arrs):
                res.kind = 'i'
        return res

    # -- indexing: allow SymArr indices of concrete ints/bools, fork on symbolic bools --
    def __getitem__(self, idx):
        r = np.ndarray.__getitem__(self, _fix_index(idx))
        return r

    def __setitem__(self, idx, val):
        if isinstance(val, np.ndarray) and val.dtype != object:
            val = val.astype(object)
        if self.kind == 'i':
            val = _trunc_store(val)
        np.ndarray.__setitem__(self, _fix_index(idx), val)

    # -- methods that would otherwise force Python truth values --------------------
    def max(self, axis=None, out=None, keepdims=False, **kw):
        return np.maximum.reduce(self, axis=axis, keepdims=keepdims)

    def min(self, axis=None, out=None, keepdims=False, **kw):
        return np.minimum.reduce(self, axis=axis, keepdims=keepdims)

    def astype(self, dtype, *a, **k):
        if dtype in (float, np.float64, object, 'float', 'float64', complex, np.complex128):
            r = self.copy()
            r.kind = 'f'
            return r
        if dtype in (int, np.int64, np.intp, 'int', 'int64') and self.kind == 'i':
            return self.copy()
        if not contains_sym(self):
            return np.array(self.view(np.ndarray).tolist()).astype(dtype)
        raise SymUnsupported('astype(%r) of a symbolic array' % (dtype,))

    def concrete(self):
        """native array of a fully concrete SymArr."""
        return np.array(self.view(np.ndarray).tolist())

    @property
    def real(self):
        return wrap(_frompy(lambda x: x.real if isinstance(x, (SR, SC, complex)) else x, 1)(self.view(np.ndarray)))

    @property
    def imag(self):
        return wrap(_frompy(lambda x: x.imag if isinstance(x, (SR, SC, complex)) else 0.0, 1)(self.view(np.ndarray)))

    def __bool__(self):
        if self.size != 1:
            raise ValueError('The truth value of an array with more than one element is ambiguous.')
        return bool(self.view(np.ndarray).ravel()[0])

    def __float__(self):
        if self.size != 1:
            raise TypeError('only length-1 arrays can be converted to Python scalars')
        return float(self.view(np.ndarray).ravel()[0])

    def __int__(self):
        if self.size != 1:
            raise TypeError('only length-1 arrays can be converted to Python scalars')
        return int(self.view(np.ndarray).ravel()[0])

    def __abs__(self):
        return np.absolute(self)


def _trunc_store(val):
    """what storing `val` into an integer array keeps (unsafe cast: truncation toward zero)."""
    if isinstance(val, np.ndarray):
        return _frompy(S.sym_trunc_merged, 1)(val.view(np.ndarray) if val.dtype == object else val.astype(object))
    if isinstance(val, (list, tuple)):
        return [_trunc_store(v) for v in val]
    if isinstance(val, (SB, bool, np.bool_)):
        return val
    return S.sym_trunc_merged(val)


def _reduce_extreme(a, axis, keepdims, is_max):
    if axis is None:
        if a.size == 0:
            raise ValueError('zero-size array to reduction operation which has no identity')
        r = S.sym_extreme_n(list(a.ravel()), is_max)
        if keepdims:
            o = np.empty((1,) * a.ndim, dtype=object)
            o.flat[0] = r
            return o
        return r
    if isinstance(axis, tuple):
        raise SymUnsupported('max/min over several axes')
    m = np.moveaxis(a, axis, -1)
    if m.shape[-1] == 0:
        raise ValueError('zero-size array to reduction operation which has no identity')
    out = np.empty(m.shape[:-1], dtype=object)
    for ix in np.ndindex(*m.shape[:-1]):
        out[ix] = S.sym_extreme_n(list(m[ix]), is_max)
    if keepdims:
        out = np.expand_dims(out, axis)
    if out.ndim == 0:
        return out[()]
    return out


def _iter_arrays(args):
    for x in args:
        if isinstance(x, np.ndarray):
            yield x
        elif isinstance(x, (list, tuple)):
            for y in _iter_arrays(x):
                yield y
        elif isinstance(x, (SR, int, float, np.number)) and not isinstance(x, (bool, np.bool_)):
            yield x


KIND_KEEPING = {np.insert, np.concatenate, np.take, np.diff, np.ediff1d, np.cumsum, np.flip, np.flipud, np.pad, np.tril,
                np.triu, np.sum, np.append, np.delete, np.reshape, np.ravel, np.copy, np.sort, np.roll, np.repeat, np.tile}


def _fix_index(idx):
    if isinstance(idx, tuple):
        return tuple(_fix_index1(i) for i in idx)
    return _fix_index1(idx)


def _fix_index1(i):
    if isinstance(i, np.ndarray) and i.dtype == object:
        return concretize_index(i)
    if isinstance(i, SB):
        return bool(i)
    return i


def concretize_index(a):
    """object array of ints/bools/SB -> native int or bool array (SB elements are decided: forks)."""
    flat = [x for x in a.view(np.ndarray).flat]
    if all(isinstance(x, (int, np.integer)) and not isinstance(x, (bool, np.bool_)) for x in flat):
        return np.array(flat, dtype=np.intp).reshape(a.shape)
    if all(isinstance(x, (SB, bool, np.bool_)) for x in flat):
        return np.array([bool(x) for x in flat], dtype=bool).reshape(a.shape)
    if all(isinstance(x, (int, np.integer, SR)) and not isinstance(x, (bool, np.bool_)) for x in flat):
        # integer-valued symbolic terms (e.g. np.where(cond, i - 1, i)): fork to concrete indices
        return np.array([int(x) for x in flat], dtype=np.intp).reshape(a.shape)
    raise SymUnsupported('cannot use this symbolic array as an index')


def concretize_bool(a):
    a = np.asarray(a, dtype=object) if not isinstance(a, np.ndarray) else a
    if a.dtype != object:
        return a.astype(bool)
    flat = [bool(_tb(x)) for x in a.view(np.ndarray).flat]
    return np.array(flat, dtype=bool).reshape(a.shape)
