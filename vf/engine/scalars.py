"""Symbolic scalars for the symnp engine.

SR  real-valued scalar: a sparse polynomial with exact Fraction coefficients over
    *atoms*.  An atom is either an input variable (z3 Real constant) or an opaque z3
    term (If-merge, quotient, algebraic root).  Polynomials are kept canonical so that
    structural equality (= identical terms) is decided without the solver and long
    linear recurrences do not build deep z3 terms.
SB  boolean scalar wrapping a z3 BoolRef; its truth value is a *decision* that the
    path explorer (engine.Engine) resolves.
SC  complex scalar = pair of SR/float.

Concrete (+) concrete never reaches this module: those stay ordinary IEEE doubles.
Symbolic (+) concrete converts the double to its exact rational value.
"""
import math
import operator
from fractions import Fraction

import numpy as np
import z3


class SymUnsupported(Exception):
    """The engine cannot encode this operation symbolically (harness error, never a verdict)."""


class NonFinite(ArithmeticError):
    """A symbolic operation would produce inf/nan on this path (e.g. division by a value that can be 0)."""


class PathAbort(BaseException):
    """Current path is infeasible / pruned.  BaseException so library `except Exception` cannot swallow it."""


# ---------------------------------------------------------------------------------
# global per-process state (one obligation at a time per process)
# ---------------------------------------------------------------------------------
class _State:
    engine = None          # current engine.Engine
    atoms = {}             # atom id -> z3 expr
    atom_by_ast = {}       # z3 ast id -> atom id
    n_atoms = 0
    n_fresh = 0
    abs_atoms = {}         # atom id -> SR q  (atom == |q|), so atom**2 == q**2
    nonneg_atoms = set()   # atoms known to be >= 0 (abs values, roots)
    squares = {}           # key of a*a -> a   (so sqrt(a*a) = |a| without a root atom)
    sqrt_atoms = {}        # atom id -> radicand SR  (atom == sqrt(radicand) >= 0)
    root_atoms = {}        # atom id -> (radicand polynomial SR, den)  (atom**den == radicand)
    pending_defs = {}      # atom id -> z3 definitional constraint not yet asserted on this path (lazy)
    ext_defs = {}          # name of a definitional max/min constant -> (is_max, [SR items])
    int_atoms = set()      # atoms that are integer valued (ToReal(Int) inputs, truncations)
    float_sentinels = {}   # SR key -> concrete stand-in returned by float() (text formatting: see vf.engine.textio)


ST = _State()


def reset_atoms():
    ST.atoms = {}
    ST.atom_by_ast = {}
    ST.n_atoms = 0
    ST.n_fresh = 0
    ST.abs_atoms = {}
    ST.nonneg_atoms = set()
    ST.squares = {}
    ST.sqrt_atoms = {}
    ST.root_atoms = {}
    ST.pending_defs = {}
    ST.float_sentinels = {}
    ST.int_atoms = set()
    ST.ext_defs = {}


def _new_atom(zexpr):
    k = zexpr.get_id()
    a = ST.atom_by_ast.get(k)
    if a is None:
        ST.n_atoms += 1
        a = ST.n_atoms
        ST.atoms[a] = zexpr
        ST.atom_by_ast[k] = a
    return a


def fresh_real(prefix):
    ST.n_fresh += 1
    return z3.Real('%s!%d' % (prefix, ST.n_fresh))


ZERO = Fraction(0)
ONE = Fraction(1)
MAX_MONOMIALS = 60000

_NUM = (int, float, Fraction, np.floating, np.integer, bool, np.bool_)


def is_sym(x):
    return isinstance(x, (SR, SB, SC)) or type(x).__name__ == 'SF'


def to_frac(x):
    if isinstance(x, Fraction):
        return x
    if isinstance(x, (bool, np.bool_)):
        return Fraction(int(x))
    if isinstance(x, (int, np.integer)):
        return Fraction(int(x))
    if isinstance(x, (float, np.floating)):
        x = float(x)
        if math.isnan(x) or math.isinf(x):
            raise NonFinite('non-finite concrete operand %r meets a symbolic value' % x)
        return Fraction(x)
    raise TypeError(type(x))


def zval(fr):
    if fr.denominator == 1:
        return z3.RealVal(fr.numerator)
    return z3.RealVal('%d/%d' % (fr.numerator, fr.denominator))


def _mono_mul(m1, m2):
    if not m1:
        return m2
    if not m2:
        return m1
    d = dict(m1)
    for a, e in m2:
        d[a] = d.get(a, 0) + e
    return tuple(sorted(d.items()))


def _arr_binop(ufunc, a, b):
    """a or b is an ndarray, the other an SR/SB/SC: route through numpy with a 0-d object wrapper."""
    from .symarr import SymArr, wrap0
    if not isinstance(a, np.ndarray):
        a = wrap0(a)
    if not isinstance(b, np.ndarray):
        b = wrap0(b)
    if not isinstance(a, SymArr):
        a = a.view(SymArr) if a.dtype == object else a.astype(object).view(SymArr)
    return ufunc(a, b)


def _scalar_array_ufunc(self, ufunc, method, *inputs, **kw):
    """ufunc applied to a bare symbolic scalar (np.sign(x), float_array * x, ...)."""
    from .symarr import SymArr, wrap0, EW
    if ufunc not in EW:
        # one of the engine's own frompyfunc ufuncs received a bare scalar: hide it in a 0-d object array
        ins = [wrap0(x) if is_sym(x) else x for x in inputs]
        return getattr(ufunc, method)(*ins, **kw)
    ins = [wrap0(x).view(SymArr) if is_sym(x) else x for x in inputs]
    first = [x for x in ins if isinstance(x, SymArr)][0]
    res = SymArr.__array_ufunc__(first, ufunc, method, *ins, **kw)
    if isinstance(res, np.ndarray) and res.ndim == 0:
        return res[()]
    return res


# ---------------------------------------------------------------------------------
# raw polynomial helpers (dict monomial -> Fraction)
# ---------------------------------------------------------------------------------
def _padd(p1, p2):
    if not p2:
        return p1
    if not p1:
        return p2
    p = dict(p1)
    for m, c in p2.items():
        v = p.get(m, ZERO) + c
        if v:
            p[m] = v
        else:
            p.pop(m, None)
    return p


def _pscale(p, c):
    if c == 1:
        return p
    if c == 0:
        return {}
    return {m: k * c for m, k in p.items()}


def _pmul(p1, p2):
    if not p1 or not p2:
        return {}
    if len(p2) == 1 and () in p2:
        return _pscale(p1, p2[()])
    if len(p1) == 1 and () in p1:
        return _pscale(p2, p1[()])
    p = {}
    for m1, c1 in p1.items():
        for m2, c2 in p2.items():
            m = _mono_mul(m1, m2)
            v = p.get(m, ZERO) + c1 * c2
            if v:
                p[m] = v
            else:
                p.pop(m, None)
    if len(p) > MAX_MONOMIALS:
        raise SymUnsupported('polynomial blow-up (%d monomials)' % len(p))
    if ST.abs_atoms or ST.root_atoms:
        p = _reduce_abs_squares(p)
    return p


_PONE = {(): ONE}


def _mkey(m):
    # lexicographic monomial order (compatible with multiplication)
    return tuple((-a, e) for a, e in m)


def _mono_cmp_key(m):
    d = dict(m)
    return d


def _lead(p):
    """leading monomial under lex order on atom ids (smaller id = more significant)."""
    best = None
    bk = None
    for m in p:
        k = tuple(sorted(((a, e) for a, e in m)))
        # compare as exponent vectors: build sparse key
        if best is None or _mono_gt(m, best):
            best = m
    return best


def _mono_gt(m1, m2):
    d1, d2 = dict(m1), dict(m2)
    for a in sorted(set(d1) | set(d2)):
        e1, e2 = d1.get(a, 0), d2.get(a, 0)
        if e1 != e2:
            return e1 > e2
    return False


def _mono_div(m1, m2):
    """m1 / m2 or None."""
    d = dict(m1)
    for a, e in m2:
        k = d.get(a, 0) - e
        if k < 0:
            return None
        if k:
            d[a] = k
        else:
            d.pop(a, None)
    return tuple(sorted(d.items()))


def _pdivexact(n, d, budget=40000):
    """polynomial q with n = q*d, or None."""
    if len(d) == 1:
        (dm, dc), = d.items()
        q = {}
        for m, c in n.items():
            mm = _mono_div(m, dm)
            if mm is None:
                return None
            q[mm] = c / dc
        return q
    if len(n) * len(d) > budget or len(n) < len(d) and False:
        return None
    ld = _lead(d)
    ldc = d[ld]
    rem = dict(n)
    q = {}
    steps = 0
    while rem:
        steps += 1
        if steps > 4000:
            return None
        lr = _lead(rem)
        mm = _mono_div(lr, ld)
        if mm is None:
            return None
        c = rem[lr] / ldc
        q[mm] = q.get(mm, ZERO) + c
        rem = _padd(rem, _pscale(_pmul({mm: ONE}, d), -c))
    return q


def _evidently_pos(p):
    """every monomial has even exponents only and a positive coefficient (so the polynomial is > 0 unless all
    its atoms vanish; callers know it is non-zero on the path)."""
    if not p:
        return False
    for m, c in p.items():
        if c <= 0:
            return False
        for a, e in m:
            if e % 2 and a not in ST.nonneg_atoms:
                return False
    return True


def _mk(n, d=None):
    """normalised SR from numerator / denominator polynomial dicts."""
    if not n:
        return 0.0
    if d is not None:
        if len(d) == 1 and () in d:
            n = _pscale(n, 1 / d[()])
            d = None
        else:
            if n == d:
                return 1.0
            q = _pdivexact(n, d)
            if q is not None:
                n, d = q, None
            else:
                # cancel a common monomial factor and normalise the denominator's leading coefficient
                common = None
                for m in list(n) + list(d):
                    dm = dict(m)
                    if common is None:
                        common = dm
                    else:
                        common = {a: min(e, dm.get(a, 0)) for a, e in common.items() if dm.get(a, 0) > 0}
                    if not common:
                        break
                if common:
                    cm = tuple(sorted(common.items()))
                    n = {_mono_div(m, cm): c for m, c in n.items()}
                    d = {_mono_div(m, cm): c for m, c in d.items()}
                lc = d[min(d)]
                if lc != 1:
                    n = _pscale(n, 1 / lc)
                    d = _pscale(d, 1 / lc)
                if len(d) == 1 and () in d:
                    n = _pscale(n, 1 / d[()])
                    d = None
    r = SR(n)
    r.q = d
    return r


def _zpoly(p):
    terms = []
    for m, c in p.items():
        fs = []
        for a, e in m:
            if ST.pending_defs and a in ST.pending_defs:
                # the atom is about to appear in a solver term: assert its definition now
                ST.engine.add_def(ST.pending_defs.pop(a))
            fs.extend([ST.atoms[a]] * e)
        if not fs:
            terms.append(zval(c))
        else:
            t = fs[0]
            for f in fs[1:]:
                t = t * f
            if c != 1:
                t = zval(c) * t
            terms.append(t)
    if not terms:
        return z3.RealVal(0)
    if len(terms) == 1:
        return terms[0]
    return z3.Sum(terms)


class SR(object):
    """rational function  p / q  over atoms (q is None for a polynomial)."""
    __slots__ = ('p', 'q', '_z')
    __array_ufunc__ = _scalar_array_ufunc
    __array_priority__ = 1000

    def __init__(self, p):
        self.p = p
        self.q = None
        self._z = None

    # -- constructors -------------------------------------------------------------
    @staticmethod
    def var(name):
        return SR({((_new_atom(z3.Real(name)), 1),): ONE})

    @staticmethod
    def atom(zexpr):
        return SR({((_new_atom(zexpr), 1),): ONE})

    @staticmethod
    def const(c):
        c = to_frac(c)
        return SR({(): c} if c else {})

    # -- inspection ---------------------------------------------------------------
    def is_const(self):
        return self.q is None and (not self.p or (len(self.p) == 1 and () in self.p))

    def is_poly(self):
        return self.q is None

    def const_value(self):
        return self.p.get((), ZERO)

    def degree(self):
        return max((sum(e for _, e in m) for m in self.p), default=0)

    def atoms(self):
        s = set()
        for pp in (self.p, self.q or {}):
            for m in pp:
                for a, _ in m:
                    s.add(a)
        return s

    def key(self):
        return (tuple(sorted(self.p.items())), tuple(sorted(self.q.items())) if self.q is not None else None)

    def same(self, other):
        o = _lift(other)
        return o is not None and o.p == self.p and o.q == self.q

    def num(self):
        return SR(self.p)

    def den(self):
        return SR(self.q) if self.q is not None else SR(dict(_PONE))

    @property
    def z(self):
        if self._z is None:
            n = _zpoly(self.p)
            self._z = n if self.q is None else n / _zpoly(self.q)
        return self._z

    def eval(self, valuation):
        def ev(p):
            tot = ZERO
            for m, c in p.items():
                t = c
                for a, e in m:
                    t *= valuation[a] ** e
                tot += t
            return tot
        return ev(self.p) if self.q is None else ev(self.p) / ev(self.q)

    # -- arithmetic ---------------------------------------------------------------
    def __add__(self, o):
        if isinstance(o, np.ndarray):
            return _arr_binop(np.add, self, o)
        if isinstance(o, SC):
            return SC(self, 0.0) + o
        o = _lift(o)
        if o is None:
            return NotImplemented
        if not o.p:
            return self
        if self.q is None and o.q is None:
            return _mk(_padd(self.p, o.p))
        if self.q == o.q:
            return _mk(_padd(self.p, o.p), self.q)
        d1 = self.q if self.q is not None else _PONE
        d2 = o.q if o.q is not None else _PONE
        # use a smaller common denominator when one divides the other
        if d1 is not _PONE and d2 is not _PONE:
            k = _pdivexact(d1, d2)
            if k is not None:
                return _mk(_padd(self.p, _pmul(o.p, k)), d1)
            k = _pdivexact(d2, d1)
            if k is not None:
                return _mk(_padd(_pmul(self.p, k), o.p), d2)
        return _mk(_padd(_pmul(self.p, d2), _pmul(o.p, d1)), _pmul(d1, d2))

    def __radd__(self, o):
        if isinstance(o, np.ndarray):
            return _arr_binop(np.add, o, self)
        return self.__add__(o)

    def __neg__(self):
        r = SR({m: -c for m, c in self.p.items()})
        r.q = self.q
        return r

    def __pos__(self):
        return self

    def __sub__(self, o):
        if isinstance(o, np.ndarray):
            return _arr_binop(np.subtract, self, o)
        if isinstance(o, SC):
            return SC(self, 0.0) - o
        o = _lift(o)
        if o is None:
            return NotImplemented
        return self.__add__(-o)

    def __rsub__(self, o):
        if isinstance(o, np.ndarray):
            return _arr_binop(np.subtract, o, self)
        o = _lift(o)
        if o is None:
            return NotImplemented
        return o.__add__(-self)

    def __mul__(self, o):
        if isinstance(o, np.ndarray):
            return _arr_binop(np.multiply, self, o)
        if isinstance(o, SC):
            return SC(self, 0.0) * o
        if isinstance(o, complex):
            return SC(self, 0.0) * SC(o.real, o.imag)
        if isinstance(o, SB):
            return sym_if(o, self, 0.0)
        o = _lift(o)
        if o is None:
            return NotImplemented
        if not o.p or not self.p:
            return 0.0
        if self.q is None and o.q is None:
            r = _mk(_pmul(self.p, o.p))
            if isinstance(r, SR) and self.p == o.p and len(self.p) > 1:
                ST.squares[r.key()] = self
            return r
        if self.p == o.p and self.q == o.q:
            r = _mk(_pmul(self.p, self.p), _pmul(self.q, self.q))
            if isinstance(r, SR):
                ST.squares[r.key()] = self
            return r
        n1, d1 = self.p, self.q
        n2, d2 = o.p, o.q
        # cross-cancel exact factors first (keeps terms small)
        if d2 is not None:
            k = _pdivexact(n1, d2)
            if k is not None:
                n1, d2 = k, None
        if d1 is not None:
            k = _pdivexact(n2, d1)
            if k is not None:
                n2, d1 = k, None
        d = d1 if d2 is None else (d2 if d1 is None else _pmul(d1, d2))
        return _mk(_pmul(n1, n2), d)

    def __rmul__(self, o):
        if isinstance(o, np.ndarray):
            return _arr_binop(np.multiply, o, self)
        return self.__mul__(o)

    def __truediv__(self, o):
        if isinstance(o, np.ndarray):
            return _arr_binop(np.true_divide, self, o)
        if isinstance(o, SC):
            return SC(self, 0.0) / o
        o = _lift(o)
        if o is None:
            return NotImplemented
        return _divide(self, o)

    def __rtruediv__(self, o):
        if isinstance(o, np.ndarray):
            return _arr_binop(np.true_divide, o, self)
        o = _lift(o)
        if o is None:
            return NotImplemented
        return _divide(o, self)

    def __pow__(self, e):
        if isinstance(e, np.ndarray):
            return _arr_binop(np.power, self, e)
        if isinstance(e, SR):
            if not e.is_const():
                raise SymUnsupported('symbolic exponent')
            e = e.const_value()
        return sym_pow(self, e)

    def __rpow__(self, b):
        if self.is_const():
            return float(b) ** float(self.const_value())
        raise SymUnsupported('symbolic exponent')

    def __abs__(self):
        return sym_abs(self)

    def __mod__(self, o):
        # x % m for a concrete positive modulus: x - m*floor(x/m); floor forks over the feasible integers (Python/NumPy
        # semantics for m > 0: the result has the sign of m)
        if isinstance(o, SR):
            if not o.is_const():
                raise SymUnsupported('mod with a symbolic modulus')
            o = float(o.const_value())
        if isinstance(o, (bool, np.bool_)) or not isinstance(o, (int, float, np.integer, np.floating)) or o <= 0:
            raise SymUnsupported('mod on a symbolic real with modulus %r' % (o,))
        if self.is_const():
            return float(self.const_value()) % o
        k = sym_floor(self * (1.0 / o) if (1.0 / o) * o == 1.0 else self / o)
        return self - k * o

    # -- comparisons --------------------------------------------------------------
    def _cmp(self, o, op, zop):
        if isinstance(o, np.ndarray):
            return _arr_binop(op, self, o)
        o = _lift(o)
        if o is None:
            return NotImplemented
        d = self - o
        if not isinstance(d, SR):
            return zop(d, 0)
        if d.is_const():
            return zop(d.const_value(), 0)
        if d.q is None:
            if ST.sqrt_atoms and len(d.p) == 2 and zop in (operator.lt, operator.le, operator.gt, operator.ge):
                # c1*A - c2*B ? 0 with c1, c2 > 0 and A, B non-negative atoms whose squares are known (sqrt(x) -> x,
                # |q| -> q^2)   <=>   c1^2*A^2 - c2^2*B^2 ? 0   (no root atoms in the comparison)
                (m1, c1), (m2, c2) = d.p.items()
                if len(m1) == 1 and len(m2) == 1 and m1[0][1] == 1 and m2[0][1] == 1 and c1 * c2 < 0 and \
                        (m1[0][0] in ST.sqrt_atoms or m2[0][0] in ST.sqrt_atoms):
                    s1 = _square_of_nonneg_atom(m1[0][0])
                    s2 = _square_of_nonneg_atom(m2[0][0])
                    if s1 is not None and s2 is not None:
                        if c1 < 0:
                            (c1, s1), (c2, s2) = (c2, s2), (c1, s1)
                        return lift(s1 * (c1 * c1))._cmp(s2 * (c2 * c2), op, zop)
            sgn = _definite_binary_quadratic(d.p)
            if sgn is not None:
                # a definite form  a*x^2 + b*x*y + c*y^2  (b^2 < 4ac) has the sign of a unless x = y = 0
                (x_, y_) = sgn[1]
                nz = sym_or(SR({((x_, 1),): ONE}) != 0, SR({((y_, 1),): ONE}) != 0)
                pos = sgn[0] > 0
                if zop in (operator.gt, operator.ne):
                    return nz if (pos or zop is operator.ne) else False
                if zop is operator.ge:
                    return True if pos else sym_not(nz)
                if zop is operator.lt:
                    return False if pos else nz
                if zop is operator.le:
                    return sym_not(nz) if pos else True
                if zop is operator.eq:
                    return sym_not(nz)
            dd = _canon_sign(d)
            if dd[1]:   # flipped sign
                zop = _FLIP[zop]
            return SB(zop(dd[0].z, 0))
        # rational: decide by the signs of numerator and denominator (the denominator is non-zero on this path)
        N = SR(d.p)
        if zop in (operator.eq, operator.ne):
            return N._cmp(0.0, op, zop)
        D = SR(d.q)
        if _evidently_pos(d.q):
            return N._cmp(0.0, op, zop)
        flip = _FLIP[zop]
        return sym_or(sym_and(N._cmp(0.0, op, zop), D > 0), sym_and(N._cmp(0.0, op, flip), D < 0))

    def __lt__(self, o):
        return self._cmp(o, np.less, operator.lt)

    def __le__(self, o):
        return self._cmp(o, np.less_equal, operator.le)

    def __gt__(self, o):
        return self._cmp(o, np.greater, operator.gt)

    def __ge__(self, o):
        return self._cmp(o, np.greater_equal, operator.ge)

    def __eq__(self, o):
        if o is None:
            return False
        return self._cmp(o, np.equal, operator.eq)

    def __ne__(self, o):
        if o is None:
            return True
        return self._cmp(o, np.not_equal, operator.ne)

    def __hash__(self):
        return id(self)

    def __bool__(self):
        r = (self != 0)
        return bool(r)

    def __float__(self):
        if self.is_const():
            return float(self.const_value())
        if ST.float_sentinels:
            v = ST.float_sentinels.get(self.key())
            if v is not None:
                return v
        raise SymUnsupported('float() of a symbolic real')

    def __int__(self):
        return sym_trunc(self)

    def __index__(self):
        raise SymUnsupported('symbolic value used as an index')

    def __repr__(self):
        if self.is_const():
            return 'SR(%s)' % float(self.const_value())
        return 'SR<%d terms, deg %d%s>' % (len(self.p), self.degree(), '' if self.q is None else ' / %d terms' % len(self.q))

    # numpy calls these on object arrays
    def conjugate(self):
        return self

    conj = conjugate

    @property
    def real(self):
        return self

    @property
    def imag(self):
        return 0.0

    def sqrt(self):
        return sym_pow(self, Fraction(1, 2))


_FLIP = {operator.lt: operator.gt, operator.gt: operator.lt, operator.le: operator.ge,
         operator.ge: operator.le, operator.eq: operator.eq, operator.ne: operator.ne}


def _definite_binary_quadratic(p):
    """(sign, (x, y)) when p = a*x^2 + b*x*y + c*y^2 over two plain atoms with b^2 < 4ac, else None."""
    if not 2 <= len(p) <= 3:
        return None
    atoms = set()
    for m in p:
        if sum(e for _, e in m) != 2:
            return None
        for a, _ in m:
            atoms.add(a)
    if len(atoms) != 2:
        return None
    x, y = sorted(atoms)
    if x in ST.abs_atoms or y in ST.abs_atoms or x in ST.root_atoms or y in ST.root_atoms:
        pass
    a = p.get(((x, 2),), ZERO)
    c = p.get(((y, 2),), ZERO)
    b = p.get(((x, 1), (y, 1)), ZERO)
    if a == 0 or c == 0:
        return None
    if b * b < 4 * a * c:
        return (1 if a > 0 else -1, (x, y))
    return None


def _canon_sign(d):
    """Normalise d so that its first monomial (in sorted order) has coefficient +1: the
    same comparison then always yields the same z3 term (decision cache hits)."""
    m0 = min(d.p)
    c = d.p[m0]
    if c == 1:
        return d, False
    q = SR({m: k / c for m, k in d.p.items()})
    return q, c < 0


def _reduce_abs_squares(p):
    """rewrite |q|**2 -> q**2 and root**den -> radicand inside a polynomial (atoms registered by sym_abs/sym_pow)."""
    def rule(a, e):
        if a in ST.abs_atoms and e >= 2:
            return ST.abs_atoms[a], 2, True
        r = ST.root_atoms.get(a)
        if r is not None and e >= r[1]:
            return r[0], r[1], False
        return None
    for _ in range(12):
        hit = False
        for m in p:
            for a, e in m:
                if rule(a, e) is not None:
                    hit = True
                    break
            if hit:
                break
        if not hit:
            return p
        out = {}
        for m, c in p.items():
            tgt = None
            for a, e in m:
                r = rule(a, e)
                if r is not None:
                    tgt = (a, e, r)
                    break
            if tgt is None:
                v = out.get(m, ZERO) + c
                if v:
                    out[m] = v
                else:
                    out.pop(m, None)
                continue
            a, e, (base, k, squared) = tgt
            rest = tuple((x, kk) for x, kk in m if x != a)
            if e % k:
                rest = tuple(sorted(rest + ((a, e % k),)))
            repl = base * base if squared else base
            term = SR({rest: c})
            for _k in range(e // k):
                term = term * repl
                if not isinstance(term, SR):
                    break
            if isinstance(term, SR):
                for m2, c2 in term.p.items():
                    v = out.get(m2, ZERO) + c2
                    if v:
                        out[m2] = v
                    else:
                        out.pop(m2, None)
            elif term != 0:
                v = out.get((), ZERO) + to_frac(term)
                if v:
                    out[()] = v
                else:
                    out.pop((), None)
        p = out
    return p


def _norm(p):
    if not p:
        return 0.0
    return SR(p)


def _lift(o):
    if isinstance(o, SR):
        return o
    if isinstance(o, _NUM):
        return SR.const(o)
    return None


def lift(o):
    r = _lift(o)
    if r is None:
        raise TypeError('cannot lift %r' % type(o))
    return r


def as_sr(o):
    return lift(o)


# ---------------------------------------------------------------------------------
# booleans
# ---------------------------------------------------------------------------------
class SB(object):
    __slots__ = ('z',)
    __array_ufunc__ = _scalar_array_ufunc
    __array_priority__ = 1000

    def __init__(self, z):
        self.z = z

    def __bool__(self):
        if z3.is_true(self.z):
            return True
        if z3.is_false(self.z):
            return False
        return ST.engine.decide(self.z)

    def _bin(self, o, f, npf, refl=False):
        if isinstance(o, np.ndarray):
            return _arr_binop(npf, o, self) if refl else _arr_binop(npf, self, o)
        if isinstance(o, SB):
            return mk_sb(f(self.z, o.z))
        if isinstance(o, (bool, np.bool_)):
            return mk_sb(f(self.z, z3.BoolVal(bool(o))))
        return NotImplemented

    def __and__(self, o):
        return self._bin(o, z3.And, np.bitwise_and)

    def __rand__(self, o):
        return self._bin(o, z3.And, np.bitwise_and, True)

    def __or__(self, o):
        return self._bin(o, z3.Or, np.bitwise_or)

    def __ror__(self, o):
        return self._bin(o, z3.Or, np.bitwise_or, True)

    def __xor__(self, o):
        return self._bin(o, z3.Xor, np.bitwise_xor)

    __rxor__ = __xor__

    def __invert__(self):
        return mk_sb(z3.Not(self.z))

    def __mul__(self, o):
        if isinstance(o, (SB, bool, np.bool_)):
            return self.__and__(o)
        if isinstance(o, np.ndarray):
            return _arr_binop(np.multiply, self, o)
        return sym_if(self, o, 0.0)

    def __rmul__(self, o):
        if isinstance(o, np.ndarray):
            return _arr_binop(np.multiply, o, self)
        return self.__mul__(o)

    def __eq__(self, o):
        if isinstance(o, SB):
            return mk_sb(self.z == o.z)
        if isinstance(o, (bool, np.bool_)):
            return self if o else ~self
        return NotImplemented

    def __hash__(self):
        return id(self)

    def __repr__(self):
        return 'SB<%s>' % (str(self.z)[:60])


def mk_sb(z):
    z = z3.simplify(z) if z.num_args() <= 8 else z
    if z3.is_true(z):
        return True
    if z3.is_false(z):
        return False
    return SB(z)


def zbool(c):
    """z3 BoolRef of a bool-like."""
    if isinstance(c, SB):
        return c.z
    if isinstance(c, (bool, np.bool_)):
        return z3.BoolVal(bool(c))
    if isinstance(c, SR):
        return (c != 0).z if isinstance(c != 0, SB) else z3.BoolVal(bool(c != 0))
    if isinstance(c, (int, float, np.integer, np.floating)):
        return z3.BoolVal(bool(c))
    raise TypeError('not a boolean: %r' % type(c))


def zreal(x):
    if isinstance(x, SR):
        return x.z
    return zval(to_frac(x))


# ---------------------------------------------------------------------------------
# merged (non-forking) operations
# ---------------------------------------------------------------------------------
def sym_if(c, a, b):
    if isinstance(c, (bool, np.bool_)):
        return a if c else b
    if isinstance(c, (int, float)) and not isinstance(c, SB):
        return a if c else b
    if not isinstance(c, SB):
        raise TypeError('sym_if condition %r' % type(c))
    if z3.is_true(c.z):
        return a
    if z3.is_false(c.z):
        return b
    if isinstance(a, SC) or isinstance(b, SC) or isinstance(a, complex) or isinstance(b, complex):
        a = as_sc(a)
        b = as_sc(b)
        return SC(sym_if(c, a.re, b.re), sym_if(c, a.im, b.im))
    if isinstance(a, (SB, bool, np.bool_)) and isinstance(b, (SB, bool, np.bool_)):
        return mk_sb(z3.If(c.z, zbool(a), zbool(b)))
    la, lb = _lift(a), _lift(b)
    if la is None or lb is None:
        raise SymUnsupported('sym_if over %r / %r' % (type(a), type(b)))
    if la.p == lb.p and la.q == lb.q:
        return a
    at = SR.atom(z3.If(c.z, la.z, lb.z))
    if is_int_valued(la) and is_int_valued(lb):
        _mark_int(at)
    return at


def sym_abs(x):
    if isinstance(x, SC):
        return x.__abs__()
    if not isinstance(x, SR):
        return abs(x)
    if x.is_const():
        return float(abs(x.const_value()))
    if x.q is not None:
        # |N/D| = |N| / |D|
        return _divide(lift(sym_abs(SR(x.p))), lift(sym_abs(SR(x.q))), known_nonzero=True)
    # a sum of even-power monomials with positive coefficients (times non-negative atoms) is non-negative already
    if _evidently_pos(x.p):
        return x
    if _evidently_pos({m: -c for m, c in x.p.items()}):
        return -x
    q, neg = _canon_sign(x)
    # |x| = |c| * |q| with q canonical, so |x| and |-x| share one atom
    c = x.p[min(x.p)]
    at = SR.atom(z3.If(q.z >= 0, q.z, -q.z))
    (m, _), = at.p.items()
    ST.abs_atoms.setdefault(m[0][0], q)
    ST.nonneg_atoms.add(m[0][0])
    if is_int_valued(q):
        ST.int_atoms.add(m[0][0])
    return at * abs(c)


def sym_sign(x):
    if not isinstance(x, SR):
        return float(np.sign(x))
    if x.is_const():
        c = x.const_value()
        return 1.0 if c > 0 else (-1.0 if c < 0 else 0.0)
    return _mark_int(SR.atom(z3.If(x.z > 0, z3.RealVal(1), z3.If(x.z < 0, z3.RealVal(-1), z3.RealVal(0)))))


def sym_max(a, b):
    if not is_sym(a) and not is_sym(b):
        return a if a >= b else b     # numpy's maximum on non-nan values
    c = (a >= b)
    return sym_if(c, a, b)


def sym_extreme_n(items, is_max):
    """max/min of several values as one definitional variable m: m >= x_i for all i and m == x_j for some j
    (friendlier to the arithmetic solver than a chain of nested ites)."""
    items = list(items)
    if not any(isinstance(x, SR) for x in items):
        r = items[0]
        for x in items[1:]:
            r = sym_max(r, x) if is_max else sym_min(r, x)
        return r
    conc = [x for x in items if not isinstance(x, SR)]
    syms = []
    seen = set()
    for x in items:
        if isinstance(x, SR):
            k = x.key()
            if k not in seen:
                seen.add(k)
                syms.append(x)
    if conc:
        c = max(conc) if is_max else min(conc)
        syms.append(lift(c))
    if len(syms) == 1:
        return syms[0]
    if len(syms) == 2:
        return sym_max(syms[0], syms[1]) if is_max else sym_min(syms[0], syms[1])
    key = ('ext', is_max, tuple(sorted(x.key() for x in syms)))
    eng = ST.engine
    m = eng.defs_cache.get(key)
    if m is None:
        mv = fresh_real('m')
        zs = [x.z for x in syms]
        if is_max:
            eng.add_def(z3.And(z3.And(*[mv >= z for z in zs]), z3.Or(*[mv == z for z in zs])))
        else:
            eng.add_def(z3.And(z3.And(*[mv <= z for z in zs]), z3.Or(*[mv == z for z in zs])))
        m = SR.atom(mv)
        if all(is_int_valued(x) for x in syms):
            _mark_int(m)
        ST.ext_defs[str(mv)] = (is_max, list(syms))
        eng.defs_cache[key] = m
    return m


def sym_min(a, b):
    if not is_sym(a) and not is_sym(b):
        return a if a <= b else b
    c = (a <= b)
    return sym_if(c, a, b)


def _divide(n, d, known_nonzero=False):
    """n / d for lifted SR operands (rational-function arithmetic; the divisor must be non-zero on this path)."""
    if d.is_const():
        c = d.const_value()
        if c == 0:
            raise NonFinite('division by zero')
        return n * SR.const(1 / c) if n.p else 0.0
    if not known_nonzero:
        nz = (SR(d.p) != 0)
        if not bool(nz):
            raise NonFinite('division by a value that is zero on this path')
    if not n.p:
        return 0.0
    # (n.p/n.q) / (d.p/d.q) = (n.p * d.q) / (n.q * d.p)
    num = n.p if d.q is None else _pmul(n.p, d.q)
    den = d.p if n.q is None else _pmul(n.q, d.p)
    return _mk(num, den)


def sym_pow(x, e, known_nonneg=False):
    """x ** e for SR x and concrete e."""
    if isinstance(e, (float, np.floating)):
        fe = Fraction(float(e)).limit_denominator(1000)
        if abs(float(fe) - float(e)) > 1e-15 * max(1.0, abs(float(e))):
            raise SymUnsupported('power with non-rational exponent %r' % e)
        e = fe
    elif isinstance(e, (int, np.integer)):
        e = Fraction(int(e))
    elif not isinstance(e, Fraction):
        raise SymUnsupported('power with exponent %r' % type(e))
    if not isinstance(x, SR):
        return float(x) ** float(e)
    if e.denominator == 1:
        n = e.numerator
        if n == 0:
            return 1.0
        if n < 0:
            return _divide(SR.const(1), lift(sym_pow(x, Fraction(-n))))
        r = None
        b = x
        while n:
            if n & 1:
                r = b if r is None else r * b
            n >>= 1
            if n:
                b = b * b
        return r
    if x.is_const():
        return float(x.const_value()) ** float(e)
    # algebraic root: y >= 0, y**den == x**num   (x >= 0 required; x == 0 with num<0 -> inf)
    if not known_nonneg:
        neg = (x < 0)
        if bool(neg):
            raise NonFinite('fractional power of a negative value')
    num, den = e.numerator, e.denominator
    if num < 0:
        return _divide(SR.const(1), lift(sym_pow(x, -e)))
    if num == 1 and den == 2:
        base = ST.squares.get(x.key())
        if base is not None:
            return sym_abs(base)
    # factor the constant content out of the radicand:  (c * X)**e = c**e * X**e  with X canonical (leading
    # coefficients 1), so that scaled radicands share one root atom; c**e is evaluated in doubles
    cn = x.p[min(x.p)]
    cd = x.q[min(x.q)] if x.q is not None else ONE
    content = cn / cd
    if content < 0:
        content = -content
    # only the exact part of the content root is taken out (6.25**0.5 = 2.5, but 2**0.5 stays inside the radicand):
    # the real-arithmetic model is never approximated by a rounded irrational constant
    if num == 1:
        rn = _int_root(content.numerator, den)
        rd = _int_root(content.denominator, den)
        f = Fraction(rn[0], rd[0])            # exact factor taken out
        if f != 1:
            inner = f ** den                 # part of the content that leaves the radicand
            X = _mk(_pscale(x.p, 1 / inner), x.q)
            r = sym_pow(X, e, known_nonneg) if isinstance(X, SR) else float(X) ** float(e)
            return r * f
    # perfect power of a single monomial over non-negative atoms
    if x.q is None and len(x.p) == 1:
        (m, c), = x.p.items()
        if c == 1 and all((ex * num) % den == 0 and a in ST.nonneg_atoms for a, ex in m):
            return SR({tuple((a, ex * num // den) for a, ex in m): ONE})
    key = ('root', x.key(), num, den)
    eng = ST.engine
    y = eng.defs_cache.get(key)
    if y is None:
        yv = fresh_real('r')
        xn = lift(sym_pow(x, Fraction(num)))
        yd = yv
        for _ in range(den - 1):
            yd = yd * yv
        if xn.q is None:
            zdef = z3.And(yv >= 0, yd == xn.z)
        else:
            zdef = z3.And(yv >= 0, yd * _zpoly(xn.q) == _zpoly(xn.p))
        y = SR.atom(yv)
        (m, _), = y.p.items()
        ST.pending_defs[m[0][0]] = zdef      # asserted lazily, when the root first appears in a solver term
        ST.nonneg_atoms.add(m[0][0])
        if num == 1 and den == 2:
            ST.sqrt_atoms[m[0][0]] = x
        if num == 1 and x.q is None:
            ST.root_atoms[m[0][0]] = (x, den)
        eng.defs_cache[key] = y
    return y


def _int_root(n, k):
    """(r, rest) with n = r**k * rest and r as large as a simple search finds (exact integer arithmetic)."""
    if n <= 1:
        return (1, n)
    if n.bit_length() > 900:
        return (1, n)
    if k == 2:
        r = math.isqrt(n)
        if r * r == n:
            return (r, 1)
    else:
        r = int(round(n ** (1.0 / k)))
        for c in (r, r + 1, r - 1):
            if c > 0 and c ** k == n:
                return (c, 1)
    # strip small prime-power factors
    out = 1
    rest = n
    for p in (2, 3, 5, 7, 11, 13):
        while rest % (p ** k) == 0:
            rest //= p ** k
            out *= p
    return (out, rest)


def _square_of_nonneg_atom(a):
    if a in ST.sqrt_atoms:
        return ST.sqrt_atoms[a]
    if a in ST.abs_atoms:
        q = ST.abs_atoms[a]
        return q * q
    return None


def sym_sqrt(x, known_nonneg=False):
    if isinstance(x, SR):
        return sym_pow(x, Fraction(1, 2), known_nonneg)
    return float(np.sqrt(x))


def sym_floor(x):
    """Concrete integer floor(x); forks over the feasible values (bounded by the path condition)."""
    if not isinstance(x, SR):
        return int(math.floor(x))
    if x.is_const():
        return math.floor(x.const_value())
    eng = ST.engine
    for _ in range(eng.max_int_forks):
        v = eng.model_value(x)
        k = math.floor(v)
        c = mk_sb(z3.And(x.z >= k, x.z < k + 1))
        if bool(c):
            return k
    raise SymUnsupported('integer fork budget exceeded in floor()')


def is_int_valued(x):
    """structurally integer valued: Python/NumPy ints, or polynomials with integer coefficients over integer atoms."""
    if isinstance(x, (bool, np.bool_)):
        return False
    if isinstance(x, (int, np.integer)):
        return True
    if isinstance(x, SR):
        if x.q is not None:
            return False
        for m, c in x.p.items():
            if c.denominator != 1:
                return False
            for a, _ in m:
                if a not in ST.int_atoms:
                    return False
        return True
    return False


def _mark_int(at):
    """records that the single-atom term `at` only takes integer values (a merge / |.| / sign / extreme of integer-valued
    terms), so that storing it into an integer array is recognised as exact."""
    if isinstance(at, SR) and at.q is None and len(at.p) == 1:
        (m, _), = at.p.items()
        if len(m) == 1 and m[0][1] == 1:
            ST.int_atoms.add(m[0][0])
    return at


def int_atom(zint):
    """SR for a z3 Int term."""
    r = SR.atom(z3.ToReal(zint))
    (m, _), = r.p.items()
    ST.int_atoms.add(m[0][0])
    return r


def sym_trunc_merged(x):
    """C-style truncation toward zero as a symbolic integer term (what an unsafe float -> int cast does)."""
    if is_int_valued(x):
        return x
    if not isinstance(x, SR):
        return int(x)
    if x.is_const():
        return int(x.const_value())
    z = x.z
    return int_atom(z3.If(z >= 0, z3.ToInt(z), -z3.ToInt(-z)))


def sym_unique_value(x):
    """concrete float value of x when the path condition pins it (forks over the feasible values otherwise,
    within the integer-fork budget)."""
    if not isinstance(x, SR):
        return x
    if x.is_const():
        return float(x.const_value())
    eng = ST.engine
    for _ in range(eng.max_int_forks):
        v = eng.model_value(x)
        if bool(x == SR.const(v)):
            f = float(v)
            return int(f) if f.is_integer() else f
    raise SymUnsupported('value is not pinned by the path condition')


def sym_ceil(x):
    if not isinstance(x, SR):
        return int(math.ceil(x))
    return -sym_floor(-x)


def sym_trunc(x):
    if not isinstance(x, SR):
        return int(x)
    if x.is_const():
        return int(x.const_value())
    if bool(x >= 0):
        return sym_floor(x)
    return -sym_floor(-x)


# ---------------------------------------------------------------------------------
# complex
# ---------------------------------------------------------------------------------
class SC(object):
    __slots__ = ('re', 'im')
    __array_ufunc__ = _scalar_array_ufunc
    __array_priority__ = 1000

    def __init__(self, re, im):
        self.re = re
        self.im = im

    def _co(self, o):
        if isinstance(o, SC):
            return o
        if isinstance(o, (complex, np.complexfloating)):
            return SC(float(o.real), float(o.imag))
        if isinstance(o, SR) or isinstance(o, _NUM):
            return SC(o, 0.0)
        return None

    def __add__(self, o):
        if isinstance(o, np.ndarray):
            return _arr_binop(np.add, self, o)
        o = self._co(o)
        if o is None:
            return NotImplemented
        return SC(self.re + o.re, self.im + o.im)

    def __radd__(self, o):
        if isinstance(o, np.ndarray):
            return _arr_binop(np.add, o, self)
        return self.__add__(o)

    def __neg__(self):
        return SC(-self.re, -self.im)

    def __sub__(self, o):
        if isinstance(o, np.ndarray):
            return _arr_binop(np.subtract, self, o)
        o = self._co(o)
        if o is None:
            return NotImplemented
        return SC(self.re - o.re, self.im - o.im)

    def __rsub__(self, o):
        if isinstance(o, np.ndarray):
            return _arr_binop(np.subtract, o, self)
        o = self._co(o)
        if o is None:
            return NotImplemented
        return SC(o.re - self.re, o.im - self.im)

    def __mul__(self, o):
        if isinstance(o, np.ndarray):
            return _arr_binop(np.multiply, self, o)
        o = self._co(o)
        if o is None:
            return NotImplemented
        if _is0(o.im):
            return SC(self.re * o.re, self.im * o.re)
        if _is0(self.im):
            return SC(self.re * o.re, self.re * o.im)
        return SC(self.re * o.re - self.im * o.im, self.re * o.im + self.im * o.re)

    def __rmul__(self, o):
        if isinstance(o, np.ndarray):
            return _arr_binop(np.multiply, o, self)
        return self.__mul__(o)

    def __truediv__(self, o):
        if isinstance(o, np.ndarray):
            return _arr_binop(np.true_divide, self, o)
        o = self._co(o)
        if o is None:
            return NotImplemented
        if _is0(o.im):
            return SC(self.re / o.re, self.im / o.re)
        den = o.re * o.re + o.im * o.im
        n = self * SC(o.re, -o.im)
        return SC(n.re / den, n.im / den)

    def __rtruediv__(self, o):
        if isinstance(o, np.ndarray):
            return _arr_binop(np.true_divide, o, self)
        o = self._co(o)
        if o is None:
            return NotImplemented
        return o.__truediv__(self)

    def __pow__(self, e):
        if isinstance(e, (int, np.integer)) and e >= 0:
            r = SC(1.0, 0.0)
            for _ in range(int(e)):
                r = r * self
            return r
        raise SymUnsupported('complex power')

    def conjugate(self):
        return SC(self.re, -self.im)

    conj = conjugate

    @property
    def real(self):
        return self.re

    @property
    def imag(self):
        return self.im

    def abs2(self):
        return self.re * self.re + self.im * self.im

    def __abs__(self):
        if _is0(self.im):
            return sym_abs(self.re)
        if _is0(self.re):
            return sym_abs(self.im)
        return sym_sqrt(self.abs2(), known_nonneg=True)     # re^2 + im^2 >= 0 by construction

    def __eq__(self, o):
        o = self._co(o)
        if o is None:
            return NotImplemented
        a = (self.re == o.re)
        b = (self.im == o.im)
        return sym_and(a, b)

    def __ne__(self, o):
        r = self.__eq__(o)
        if r is NotImplemented:
            return r
        return sym_not(r)

    def __hash__(self):
        return id(self)

    def __repr__(self):
        return 'SC(%r, %r)' % (self.re, self.im)


def _is0(x):
    return (not isinstance(x, SR)) and x == 0


def as_sc(o):
    if isinstance(o, SC):
        return o
    if isinstance(o, (complex, np.complexfloating)):
        return SC(float(o.real), float(o.imag))
    return SC(o, 0.0)


def sym_and(*cs):
    zs = []
    for c in cs:
        if isinstance(c, SB):
            zs.append(c.z)
        elif not c:
            return False
    if not zs:
        return True
    return mk_sb(z3.And(*zs)) if len(zs) > 1 else SB(zs[0])


def sym_or(*cs):
    zs = []
    for c in cs:
        if isinstance(c, SB):
            zs.append(c.z)
        elif c:
            return True
    if not zs:
        return False
    return mk_sb(z3.Or(*zs)) if len(zs) > 1 else SB(zs[0])


def sym_not(c):
    if isinstance(c, SB):
        return mk_sb(z3.Not(c.z))
    return not c


def sym_implies(a, b):
    return sym_or(sym_not(a), b)
