"""Text round trips with symbolic numbers (C16).

The library formats numbers with str % (C code: it calls float(x)).  A symbolic scalar that has to be written is
given a concrete *sentinel* double of the right digit structure; the real formatting code and the real file system
run on the sentinels, and when the text is read back the symbolic meaning is recovered:

  * a number token whose text matches a value sentinel to within half a unit of its last written digit becomes a
    fresh real r with |r - v| <= half that unit (the contract of decimal formatting: correct rounding to the written
    digits) -- so the number of digits the CURRENT source writes is what bounds the error;
  * a dt sentinel has pairwise distinct digits; float(text) inside the loader maps each sentinel digit character back
    to its symbolic digit and evaluates the text positionally, so whatever slicing the loader did to the text is
    reflected in the symbolic value.

String-level control flow therefore follows the sentinel's structure (digit counts, sign, decade), which is
enumerated by the harness; digit VALUES and number values stay symbolic.
"""
import builtins
import re
from decimal import Decimal
from fractions import Fraction

import numpy as np
import z3

from . import scalars as S
from .scalars import SR, ST
from .symarr import SymArr

STATE = {'values': [], 'digits': {}, 'active': False}


def reset():
    STATE['values'] = []
    STATE['digits'] = {}
    STATE['active'] = True
    ST.float_sentinels = {}


def register_value(v, sentinel):
    """value v (symbolic, or a concrete number) is written as `sentinel` (a double in the same decade and of the same
    sign; the number itself when concrete).  Registration order = order in which the record is written."""
    if isinstance(v, SR):
        ST.float_sentinels[v.key()] = float(sentinel)
    STATE['values'].append([Decimal(repr(float(sentinel))), v, False])


def register_dt(dt, text, digit_syms):
    """dt is written as the sentinel whose decimal text is `text` (pairwise distinct digits); digit_syms maps each
    digit character of the text to its symbolic digit."""
    ST.float_sentinels[dt.key()] = float(text)
    STATE['digits'] = dict(digit_syms)


_NUM = re.compile(r'^[+-]?(\d+\.?\d*|\.\d+)([eE][+-]?\d+)?$')


def _ulp(tok):
    """place value of the last written digit of a decimal token."""
    m = re.match(r'^[+-]?(\d*)\.?(\d*)(?:[eE]([+-]?\d+))?$', tok)
    frac = len(m.group(2) or '')
    exp = int(m.group(3) or 0)
    return Fraction(10) ** (exp - frac)


def number_from_token(tok):
    """symbolic meaning of a numeric token read back from a file."""
    tok = tok.strip()
    if not _NUM.match(tok):
        return builtins.float(tok)
    d = Decimal(tok)
    u = _ulp(tok)
    # tokens are consumed in writing order: the first not yet used registered value that the text can stand for
    for ent in STATE['values']:
        sent, v, used = ent
        if used:
            continue
        if abs(Fraction(sent) - Fraction(d)) <= u / 2 * (1 + Fraction(1, 10 ** 6)):
            ent[2] = True
            if not isinstance(v, SR):
                return builtins.float(tok)
            r = S.fresh_real('txt')
            ST.engine.add_def(z3.And(r - v.z <= S.zval(u / 2), v.z - r <= S.zval(u / 2)))
            return SR.atom(r)
    return builtins.float(tok)


def sym_float(x):
    """replacement for the module-global float() of eqsig.loader."""
    if isinstance(x, str) and STATE['active'] and STATE['digits']:
        t = x.strip()
        if re.match(r'^[+-]?(\d+\.?\d*|\.\d+)$', t) and any(ch in STATE['digits'] for ch in t):
            sign = -1 if t.startswith('-') else 1
            t = t.lstrip('+-')
            ip, _, fp = t.partition('.')
            tot = 0.0
            for k, ch in enumerate(reversed(ip)):
                dv = STATE['digits'].get(ch, builtins.int(ch))
                tot = tot + dv * (10 ** k)
            for k, ch in enumerate(fp):
                dv = STATE['digits'].get(ch, builtins.int(ch))
                tot = tot + dv * Fraction(1, 10 ** (k + 1))
            return tot * sign
    if isinstance(x, SR):
        return x
    return builtins.float(x)


# ---------------------------------------------------------------------------------
# np.genfromtxt contract model (the subset eqsig uses)
# ---------------------------------------------------------------------------------
_DELETE = set(r"""~!@#$%^&*()-=+~\|]}[{';: /?.>,<""")


def validate_name(item, i=0):
    item = item.strip()
    item = item.replace(' ', '_')
    item = ''.join(c for c in item if c not in _DELETE)
    if item == '':
        item = 'f%d' % i
    if item in ('return', 'file', 'print'):
        item += '_'
    return item


class _DType(object):
    def __init__(self, names):
        self.names = names


class FakeData(object):
    """what genfromtxt(names=True, usecols=0) returns, as far as eqsig uses it."""

    def __init__(self, names, values, scalar):
        self.dtype = _DType(tuple(names) if names is not None else None)
        self._values = values
        self._scalar = scalar

    def astype(self, t):
        if self._scalar:
            a = np.empty((), dtype=object)
            a[()] = self._values[0]
            return a.view(SymArr)
        return SymArr(self._values)


def genfromtxt(fname, skip_header=0, delimiter=None, names=None, usecols=None, symbolic=True, **kw):
    with open(fname) as f:
        lines = f.read().split('\n')
    lines = lines[skip_header:]
    lines = [ln.split('#')[0] for ln in lines]
    lines = [ln for ln in lines if ln.strip() != '']
    fnames = None
    if names is True:
        head = lines[0]
        lines = lines[1:]
        cols = head.split(delimiter) if delimiter else head.split()
        if usecols is not None:
            cols = [cols[usecols]] if isinstance(usecols, int) else [cols[c] for c in usecols]
        fnames = [validate_name(c, i) for i, c in enumerate(cols)]
    vals = []
    for ln in lines:
        cols = ln.split(delimiter) if delimiter else ln.split()
        tok = cols[usecols if isinstance(usecols, int) else 0]
        vals.append(number_from_token(tok) if symbolic else builtins.float(tok))
    return FakeData(fnames, vals, scalar=(len(vals) == 1))
