"""Contract models of the compiled SciPy routines eqsig calls.  Concrete inputs are passed to
the real routine; symbolic inputs run the documented algorithm on symbolic scalars."""
import numpy as np
from fractions import Fraction as Fraction_

from . import scalars as S
from .scalars import SR, SC, SymUnsupported, is_sym
from .symarr import SymArr, wrap, _plain, contains_sym
from . import models

REAL = {}


def _is_symarr(x):
    return isinstance(x, np.ndarray) and x.dtype == object


def toeplitz(c, r=None):
    import scipy.linalg
    real = toeplitz.__wrapped__
    return wrap(real(c, r))


def _bind_toeplitz():
    import scipy.linalg
    if not hasattr(toeplitz, '__wrapped__'):
        toeplitz.__wrapped__ = scipy.linalg.toeplitz


_bind_toeplitz()


# ---------------------------------------------------------------------------------
# lfilter / filtfilt (padtype='odd', method='pad': SciPy's defaults, the ones eqsig uses)
# ---------------------------------------------------------------------------------
def lfilter_df2t(b, a, x, zi):
    """Direct form II transposed, as documented for scipy.signal.lfilter."""
    b = [float(v) for v in b]
    a = [float(v) for v in a]
    a0 = a[0]
    b = [v / a0 for v in b]
    a = [v / a0 for v in a]
    n = max(len(a), len(b))
    b = b + [0.0] * (n - len(b))
    a = a + [0.0] * (n - len(a))
    z = list(zi) + [0.0]
    y = []
    for xm in x:
        ym = _trim(b[0] * xm + z[0])
        for i in range(n - 1):
            z[i] = _trim(b[i + 1] * xm + z[i + 1] - a[i + 1] * ym)
        y.append(ym)
    return y, z[:-1]


_TRIM_BITS = 320


def _trim(v):
    """keep long linear recurrences cheap: round the exact rational coefficients of a linear form to dyadics with
    320 fractional bits (absolute error 2**-320 per coefficient, far below every tolerance used)."""
    if isinstance(v, SR) and v.q is None:
        sc = 1 << _TRIM_BITS
        big = False
        for c in v.p.values():
            if c.denominator.bit_length() > 2 * _TRIM_BITS:
                big = True
                break
        if big:
            p = {}
            for m, c in v.p.items():
                r = Fraction_(round(c * sc), sc)
                if r:
                    p[m] = r
            return SR(p) if p else 0.0
    return v


def filtfilt(b, a, x, axis=-1, padtype='odd', padlen=None, method='pad', irlen=None):
    if not (_is_symarr(x) and contains_sym(x)):
        if _is_symarr(x):
            x = np.array(x.tolist(), dtype=float)
        return REAL['filtfilt'](b, a, x, axis=axis, padtype=padtype, padlen=padlen, method=method, irlen=irlen)
    if padtype != 'odd' or method != 'pad' or x.ndim != 1:
        raise SymUnsupported('filtfilt options')
    import scipy.signal
    b = np.atleast_1d(np.asarray(b, dtype=float))
    a = np.atleast_1d(np.asarray(a, dtype=float))
    ntaps = max(len(a), len(b))
    edge = ntaps * 3 if padlen is None else padlen
    xs = list(_plain(x))
    if len(xs) <= edge:
        raise ValueError("The length of the input vector x must be greater than padlen, which is %d." % edge)
    if edge > 0:
        left = [2 * xs[0] - v for v in xs[edge:0:-1]]
        right = [2 * xs[-1] - v for v in xs[-2:-(edge + 2):-1]]
        ext = left + xs + right
    else:
        ext = xs
    zi = scipy.signal.lfilter_zi(b, a)
    y, _ = lfilter_df2t(b, a, ext, [v * ext[0] for v in zi])
    y0 = y[-1]
    y, _ = lfilter_df2t(b, a, y[::-1], [v * y0 for v in zi])
    y = y[::-1]
    if edge > 0:
        y = y[edge:-edge]
    return SymArr(y)


def resample(x, num, t=None, axis=0, window=None, domain='time'):
    """scipy.signal.resample for a real 1-D record (the rfft / irfft branch of SciPy's implementation)."""
    if not (_is_symarr(x) and contains_sym(x)):
        if _is_symarr(x):
            x = np.array(x.tolist(), dtype=float)
        return REAL['resample'](x, num, t=t, axis=axis, window=window, domain=domain)
    if t is not None or window is not None or domain != 'time' or x.ndim != 1:
        raise SymUnsupported('resample options')
    num = int(num)
    xs = list(_plain(x))
    n = len(xs)
    s_fac = n / num
    m = min(num, n)
    m2 = m // 2 + 1
    X = models.dft_1d(xs, n)[:n // 2 + 1][:m2]
    if m % 2 == 0 and num != n:
        X[m // 2] = X[m // 2] * (2.0 if num < n else 0.5)
    X = [v * (1.0 / s_fac) if False else SC(v.re / s_fac, v.im / s_fac) for v in X]
    K = num // 2 + 1
    X = (X + [SC(0.0, 0.0)] * K)[:K]
    out = []
    for j in range(num):
        tot = X[0].re
        for k in range(1, K):
            c, sn = models.twiddle(j * k, num)
            term = _mulf(X[k].re, c) - _mulf(X[k].im, sn)
            if num % 2 == 0 and k == num // 2:
                tot = tot + term
            else:
                tot = tot + term * 2
        out.append(tot * Fraction_(1, num) if isinstance(tot, SR) else tot / num)
    return SymArr(out)


def _mulf(v, f):
    if f == 0:
        return 0.0
    if isinstance(v, SR):
        return v * f
    if v == 0:
        return 0.0
    return SR.const(Fraction_(float(v)) * f)


class interp1d(object):
    """scipy.interpolate.interp1d(kind='previous') on symbolic ordinates (concrete abscissae)."""

    def __init__(self, x, y, kind='linear', axis=-1, **kw):
        self._real = None
        if not (_is_symarr(y) and contains_sym(y)) and not (_is_symarr(x) and contains_sym(x)):
            if _is_symarr(y):
                y = np.array(y.tolist(), dtype=float)
            if _is_symarr(x):
                x = np.array(x.tolist())
            self._real = REAL['interp1d'](x, y, kind=kind, axis=axis, **kw)
            return
        if kind != 'previous' or kw:
            raise SymUnsupported('interp1d kind=%r' % (kind,))
        if _is_symarr(x):
            if contains_sym(x):
                raise SymUnsupported('interp1d with symbolic abscissae')
            x = np.array(x.tolist())
        self.x = np.asarray(x)
        y = _plain(y)
        self.y = np.moveaxis(y, axis, 0)
        self.axis = axis
        if len(self.x) != self.y.shape[0]:
            raise ValueError('x and y arrays must be equal in length along interpolation axis.')
        order = np.argsort(self.x, kind='mergesort')
        self.x = self.x[order]
        self.y = self.y[order]

    def __call__(self, xnew):
        if self._real is not None:
            return self._real(xnew)
        xnew = np.asarray(xnew)
        if np.any(xnew < self.x[0]) or np.any(xnew > self.x[-1]):
            raise ValueError('A value in x_new is outside the interpolation range.')
        # 'previous': value at the greatest node <= x  (scipy: searchsorted(nextafter(x, -inf) side...) - 1)
        idx = np.searchsorted(self.x, xnew, side='right') - 1
        idx = np.clip(idx, 0, len(self.x) - 1)
        out = self.y[idx]
        return wrap(np.moveaxis(out, 0, self.axis) if out.ndim > 1 else out)
