#!/bin/bash
# usage: collect_seeded.sh <ID> [<name>]   verifies a sub-agent's seeded change in /tmp/wt/<ID> and stores it under /verif/seeded/<name>
ID=$1; NAME=${2:-$1}; W=/tmp/wt/$ID
cd $W || exit 2
git diff -- eqsig > /tmp/wt/$ID.check.diff
[ -s /tmp/wt/$ID.check.diff ] || { echo "$ID: no change applied"; exit 2; }
T=$(PYTHONPATH=$W /venv/bin/python -m pytest -q -p no:cacheprovider 2>&1 | tail -1)
PYTHONPATH=$W /venv/bin/python demo_$ID.py >/tmp/wt/$ID.demo_with.txt 2>&1; RW=$?
git apply -R /tmp/wt/$ID.check.diff
PYTHONPATH=$W /venv/bin/python demo_$ID.py >/tmp/wt/$ID.demo_without.txt 2>&1; RO=$?
git apply /tmp/wt/$ID.check.diff
echo "$ID: tests='$T' demo_with_patch_exit=$RW demo_without_exit=$RO"
if [[ "$T" == *"63 passed"* && $RW -eq 1 && $RO -eq 0 ]]; then
  D=/verif/seeded/$NAME; mkdir -p $D
  cp /tmp/wt/$ID.check.diff $D/patch.diff; cp demo_$ID.py $D/demo.py; cp NOTES.md $D/NOTES.md 2>/dev/null
  BASE=$(git rev-parse HEAD)
  python3 - "${ID%b}" "$D" "$T" "$BASE" <<'PY'
import json,sys
i,d,t,base=sys.argv[1:]
json.dump({"property":i,"base_commit":base,"needs":"see NOTES.md","verified":{"tests_with_patch":t,"demo_with_patch_exit":1,"demo_without_patch_exit":0,
 "commands":["PYTHONPATH=<wt> /venv/bin/python -m pytest -q -p no:cacheprovider","PYTHONPATH=<wt> /venv/bin/python demo.py (with patch / after git apply -R)"]},
 "detected_by":None},open(d+"/meta.json","w"),indent=1)
PY
  echo "$ID: stored in $D"
else
  echo "$ID: NOT stored"
fi
