#!/usr/bin/env python3
"""Regenerate MANIFEST.json from the table below (keeps it schema-valid at all times)."""
import json, os, sys
HERE = os.path.dirname(os.path.dirname(os.path.abspath(__file__)))
ids = [json.loads(l)['id'] for l in open(os.path.join(HERE, 'properties.jsonl'))]

TECH = ('bounded symbolic execution of the real eqsig code on NumPy object arrays of z3-backed scalars '
        '(decision-replay path enumeration) + one z3 query (path condition and negated claim) per obligation; '
        'sat models are replayed on the unpatched library before a VIOLATION is printed; a sample of the claim '
        'queries of every obligation is re-decided by cvc5 from the SMT-LIB dump of the z3 state (disagreement = harness error)')
NOTE = ('Trusted base: z3 (cvc5 as cross-check on sampled queries); the symnp engine (vf/engine); contract models of compiled NumPy/SciPy routines listed in the '
        'evidence file (differentially validated on every run). Symbolic values are mathematical reals, concrete '
        'coefficients are the doubles the library computes; round-off on the symbolic record, inputs outside the '
        'stated bounds and NaN/inf are outside the claim.')

CLAIMED = {
    # id: (design_ref, level text)
}
sys.path.insert(0, HERE)
from tools.claims import CLAIMED, NOT_APPLICABLE  # noqa

m = {
    'version': 1, 'setup_cmd': './setup.sh',
    'hooks': {'guard': 'ENG_TOOLS_EQSIG_VERIF',
              'enable': 'no source hooks: instrumentation is done from outside by rebinding module globals at import '
                        'time (vf.engine.install); EQSIG_SRC selects the tree (default /repo)',
              'baseline_off_cmd': 'cd /repo && /venv/bin/python -m pytest -ra -q -p no:cacheprovider --timeout=900 '
                                  '--continue-on-collection-errors',
              'source_commits': [], 'add_only': True},
    'engines': [{'name': 'symnp', 'path': 'vf/engine', 'serves_properties': sorted(CLAIMED),
                 'kind_free_text': 'symbolic execution of the real eqsig functions on NumPy object arrays of z3-backed '
                                   'scalars; path exploration by decision replay; z3 decides each obligation; '
                                   'counterexamples replayed on the unpatched library'}],
    'checks': [], 'not_applicable': [],
    'notes': 'Known findings: known_findings.json (read-only at run time). Exit code 3 = harness error / inconclusive '
             '(neither verdict).',
}
for i in ids:
    if i in CLAIMED:
        ref, text = CLAIMED[i]
        m['checks'].append({
            'property_id': i, 'quick_cmd': './check %s --tier quick' % i,
            'thorough_cmd': './check %s --tier thorough' % i,
            'evidence_file': 'evidence/%s.json' % i, 'replay_cmd_template': './check %s --replay {path}' % i,
            'engine': 'symnp',
            'level_claimed': {'category': 'model_checking', 'text': text, 'design_ref': ref},
            'level_note': NOTE, 'technique': TECH})
    else:
        m['not_applicable'].append({'property_id': i, 'reason': NOT_APPLICABLE.get(i, 'check not built yet (framework under construction)')})
import jsonschema
jsonschema.validate(m, json.load(open('/root/.vp/MANIFEST.schema.json')))
json.dump(m, open(os.path.join(HERE, 'MANIFEST.json'), 'w'), indent=1)
print('manifest: %d checks, %d not applicable' % (len(m['checks']), len(m['not_applicable'])))
