#!/bin/bash
# usage: tools/run_all.sh [tier] [ids...]   runs every claimed check, prints exit code, wall time and summary line
TIER=${1:-quick}; shift
IDS=${@:-$(python3 -c "import json;print(' '.join(c['property_id'] for c in json.load(open('/verif/MANIFEST.json'))['checks']))")}
cd /verif
for p in $IDS; do
  S=$(date +%s); OUT=$(./check $p --tier $TIER 2>&1); RC=$?; E=$(date +%s)
  echo "$p rc=$RC $((E-S))s $(echo "$OUT" | tail -1 | cut -c1-230)"
  echo "$OUT" | grep -E "^VIOLATION|^HARNESS|^INCONCLUSIVE |^SELFTEST" | cut -c1-200 | head -3
done
