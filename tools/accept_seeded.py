#!/usr/bin/env python3
"""Confirm a sub-agent's seeded change independently and file it under seeded/<name>/.

usage: tools/accept_seeded.py <outdir> <name> <PROP> "<needs>"
  <outdir> holds patch.diff, demo.py, NOTES.md.  In a scratch copy of /repo (outside /repo and /verif):
  demo on the clean copy must exit 0; with the patch the 63 tests must pass and the demo must exit non-zero.
"""
import json
import os
import shutil
import subprocess
import sys
import tempfile

out, name, prop, needs = sys.argv[1:5]
VERIF = os.path.dirname(os.path.dirname(os.path.abspath(__file__)))
s = tempfile.mkdtemp(prefix='accept.')
try:
    subprocess.check_call(['rsync', '-a', '--exclude', '.git', '/repo/', s + '/src/'])
    env = dict(os.environ, PYTHONPATH=s + '/src', PYTHONDONTWRITEBYTECODE='1')

    def demo():
        r = subprocess.run(['/venv/bin/python', os.path.join(out, 'demo.py')], cwd=s, env=env, capture_output=True,
                           text=True, timeout=900)
        return r.returncode, (r.stdout + r.stderr)[-400:]
    rc0, o0 = demo()
    subprocess.check_call(['patch', '-p1', '-s', '-i', os.path.join(out, 'patch.diff')], cwd=s + '/src')
    t = subprocess.run(['/venv/bin/python', '-m', 'pytest', '-q', '-p', 'no:cacheprovider', '-x'], cwd=s + '/src',
                       env=env, capture_output=True, text=True, timeout=1800)
    tline = t.stdout.strip().splitlines()[-1] if t.stdout.strip() else t.stderr[-200:]
    rc1, o1 = demo()
    ok = rc0 == 0 and rc1 != 0 and t.returncode == 0 and '63 passed' in tline
    print('clean demo exit=%s | tests: %s | patched demo exit=%s -> %s' % (rc0, tline, rc1, 'ACCEPT' if ok else 'REJECT'))
    if not ok:
        print(o0, '\n---\n', o1)
        sys.exit(1)
    d = os.path.join(VERIF, 'seeded', name)
    os.makedirs(d, exist_ok=True)
    for f in ('patch.diff', 'demo.py', 'NOTES.md'):
        shutil.copy(os.path.join(out, f), os.path.join(d, f))
    base = subprocess.check_output(['git', '-C', '/repo', 'rev-parse', 'HEAD'], text=True).strip()
    json.dump({'property': prop, 'base_commit': base, 'needs': needs,
               'verified': {'tests_with_patch': tline, 'demo_with_patch_exit': rc1, 'demo_without_patch_exit': rc0,
                            'demo_with_patch_output_tail': o1[-300:],
                            'commands': ['rsync copy of /repo; patch -p1 < patch.diff',
                                         'PYTHONPATH=<copy> /venv/bin/python -m pytest -q -p no:cacheprovider',
                                         'PYTHONPATH=<copy> /venv/bin/python demo.py (before / after the patch)']},
               'detected_by': None}, open(os.path.join(d, 'meta.json'), 'w'), indent=1)
finally:
    shutil.rmtree(s, ignore_errors=True)
