#!/bin/bash
# usage: try_seeded.sh <seeded-name> <PROP> [tier]  -> applies seeded/<name>/patch.diff to a scratch copy of /repo and runs the check on it
NAME=$1; PROP=$2; TIER=${3:-quick}
S=$(mktemp -d /tmp/seedrun.XXXXXX)
rsync -a --exclude .git /repo/ $S/src/
( cd $S/src && patch -p1 -s < /verif/seeded/$NAME/patch.diff ) || { echo "patch failed"; rm -rf $S; exit 2; }
cd /verif
EQSIG_SRC=$S/src VF_EVIDENCE_DIR=$S/ev ./check $PROP --tier $TIER > $S/out.txt 2>&1; RC=$?
grep -E "^VIOLATION|^KNOWN|^HARNESS|^INCONC|^SELFTEST" $S/out.txt | cut -c1-220 | head -8
grep -A1 "^VIOLATION" $S/out.txt | grep scenario | cut -c1-260 | head -4
tail -1 $S/out.txt
echo "seeded=$NAME prop=$PROP tier=$TIER exit=$RC"
rm -rf $S
