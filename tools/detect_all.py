#!/usr/bin/env python3
"""Run every seeded change against the check(s) of its property and write seeded/DETECTION.md.

usage: tools/detect_all.py [--tier quick|thorough] [--par N] [names...]

Each seeded/<name>/patch.diff is applied to a scratch copy of /repo (never to /repo itself), the check of the
property named in meta.json (or given as NAME:PROP) runs with EQSIG_SRC pointing at the copy, and exit code, the
first VIOLATION line and wall time are recorded in seeded/<name>/meta.json under detected_by[tier] and in the table.
"""
import concurrent.futures as cf
import json
import os
import re
import shutil
import subprocess
import sys
import tempfile
import time

VERIF = os.path.dirname(os.path.dirname(os.path.abspath(__file__)))
SEEDED = os.path.join(VERIF, 'seeded')


def prop_of(name):
    mp = os.path.join(SEEDED, name, 'meta.json')
    if os.path.exists(mp):
        return json.load(open(mp)).get('property')
    m = re.match(r'M_c(\d\d)', name)
    return 'C' + m.group(1) if m else None


def run_one(name, prop, tier, jobs):
    s = tempfile.mkdtemp(prefix='seedrun.')
    try:
        subprocess.check_call(['rsync', '-a', '--exclude', '.git', '/repo/', s + '/src/'])
        p = subprocess.run(['patch', '-p1', '-s', '-i', os.path.join(SEEDED, name, 'patch.diff')], cwd=s + '/src',
                           capture_output=True, text=True)
        if p.returncode != 0:
            return dict(name=name, prop=prop, tier=tier, exit='patch-failed', line=p.stdout[-200:], wall=0)
        env = dict(os.environ, EQSIG_SRC=s + '/src', VF_EVIDENCE_DIR=s + '/ev', VF_JOBS=str(jobs),
                   VF_REPLAY_DIR=s + '/replays')
        t0 = time.time()
        try:
            r = subprocess.run(['./check', prop, '--tier', tier], cwd=VERIF, env=env, capture_output=True, text=True,
                               timeout=3600 if tier == 'quick' else 4 * 3600)
            out, rc = r.stdout, r.returncode
        except subprocess.TimeoutExpired as e:
            out, rc = (e.stdout or b'').decode() if isinstance(e.stdout, bytes) else (e.stdout or ''), 'timeout'
        wall = time.time() - t0
        lines = out.splitlines()
        viol = [l for l in lines if l.startswith('VIOLATION')]
        detail = ''
        for i, l in enumerate(lines):
            if l.startswith('VIOLATION') and i + 1 < len(lines):
                m = re.search(r'scenario=(\S+).*?clause=(\S+)', lines[i + 1])
                if m:
                    detail = '%s/%s' % (m.group(1), m.group(2))
                break
        other = [l[:160] for l in lines if re.match(r'HARNESS|INCONCLUSIVE |SELFTEST', l)][:2]
        return dict(name=name, prop=prop, tier=tier, exit=rc, violations=len(viol), first=detail, other=other,
                    wall=round(wall, 1))
    finally:
        shutil.rmtree(s, ignore_errors=True)


def main():
    args = sys.argv[1:]
    tier = 'quick'
    par = 3
    names = []
    i = 0
    while i < len(args):
        if args[i] == '--tier':
            tier = args[i + 1]; i += 2
        elif args[i] == '--par':
            par = int(args[i + 1]); i += 2
        else:
            names.append(args[i]); i += 1
    if not names:
        names = sorted(d for d in os.listdir(SEEDED) if os.path.exists(os.path.join(SEEDED, d, 'patch.diff')))
        names = [d for d in names if not (os.path.exists(os.path.join(SEEDED, d, 'meta.json')) and
                                          json.load(open(os.path.join(SEEDED, d, 'meta.json'))).get('superseded'))]
    jobs = max(2, 16 // par)
    todo = []
    for n in names:
        if ':' in n:
            n, p = n.split(':')
        else:
            p = prop_of(n)
        todo.append((n, p))
    res = []
    with cf.ThreadPoolExecutor(par) as ex:
        futs = [ex.submit(run_one, n, p, tier, jobs) for n, p in todo]
        for f in cf.as_completed(futs):
            r = f.result()
            res.append(r)
            print('%-16s %-4s %-8s exit=%-8s viol=%s %-50s %6.1fs %s' % (
                r['name'], r['prop'], r['tier'], r['exit'], r.get('violations'), r.get('first', ''), r['wall'],
                r.get('other') or ''), flush=True)
            mp = os.path.join(SEEDED, r['name'], 'meta.json')
            if os.path.exists(mp):
                m = json.load(open(mp))
                db = m.get('detected_by') if isinstance(m.get('detected_by'), dict) else {}
                db[tier] = {'check': r['prop'], 'exit': r['exit'], 'first_violation': r.get('first', ''),
                            'wall_s': r['wall']}
                m['detected_by'] = db
                json.dump(m, open(mp, 'w'), indent=1)
    # table from all meta.json files
    rows = []
    for d in sorted(os.listdir(SEEDED)):
        mp = os.path.join(SEEDED, d, 'meta.json')
        if not os.path.exists(mp):
            continue
        m = json.load(open(mp))
        db = m.get('detected_by') if isinstance(m.get('detected_by'), dict) else {}
        q, t = db.get('quick'), db.get('thorough')

        def cell(x):
            if m.get('superseded'):
                return 'superseded (see meta.json)'
            if not x:
                return 'not run'
            if x['exit'] == 1:
                return 'VIOLATION `%s` (%.0fs)' % (x['first_violation'], x['wall_s'])
            if x['exit'] == 0:
                return 'missed (exit 0)'
            return 'exit %s' % x['exit']
        rows.append('| %s | %s | %s | %s | %s |' % (d, m.get('property'), str(m.get('summary') or m.get('needs'))[:110],
                                               cell(q), cell(t)))
    with open(os.path.join(SEEDED, 'DETECTION.md'), 'w') as f:
        f.write('# Seeded changes and which check catches them\n\n'
                'Generated by `tools/detect_all.py` (each patch applied to a scratch copy of /repo, never to /repo).\n'
                'exit 1 = the check printed a VIOLATION that reproduced on the patched library; exit 0 = missed; '
                'exit 3 = neither verdict (harness error / inconclusive).\n\n'
                '| seeded | property | needs | quick | thorough |\n|---|---|---|---|---|\n' + '\n'.join(rows) + '\n')


if __name__ == '__main__':
    main()
