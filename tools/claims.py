CLAIMED = {
    'C11': ('DESIGN.md 4/C11', 'Bounded symbolic model checking of get_peak_array_indices / get_n_cyc_array: every '
            'rise/fall/flat pattern of an n-sample real series (n<=7 quick, n<=9 thorough) is a feasible path and '
            'every clause of the property is discharged by z3 for all real values realising the pattern.'),
}
NOT_APPLICABLE = {}
