CLAIMED = {
    'C11': ('DESIGN.md 4/C11', 'Bounded symbolic model checking of get_peak_array_indices / get_n_cyc_array: every '
            'rise/fall/flat pattern of an n-sample real series (n<=7 quick, n<=9 thorough) is a feasible path and '
            'every clause of the property is discharged by z3 for all real values realising the pattern.'),
}
CLAIMED['C12'] = ('DESIGN.md 4/C12', 'Bounded symbolic model checking of get_zero_crossings_array_indices and '
    'get_switched_peak_array_indices: every sign/zero/order pattern of an n-sample real series (crossings n<=7, '
    'switched peaks n<=6 quick) is a feasible path; the exact-crossing set, one-maximal-peak-per-excursion, sign '
    'alternation and tolerance-subsequence clauses are decided by z3 for all real values on each path.')
CLAIMED['C08'] = ('DESIGN.md 4/C08', 'Symbolic execution of calc_velo_and_disp_from_accel_arr (both branches, with SciPy\'s real '
    'cumulative_trapezoid) and the AccSignal accessors with symbolic record AND symbolic dt: increment identities, '
    'linearity and closed forms are polynomial identities decided structurally/by z3 for n<=10 (24 thorough); '
    'calc_peak = max|x| is decided for every x in R^n, n<=12 (24), and pga/pgv/pgd are shown to be calc_peak of the '
    'respective series.')
NOT_APPLICABLE = {}
