CLAIMED = {
    'C11': ('DESIGN.md 4/C11', 'Bounded symbolic model checking of get_peak_array_indices / get_n_cyc_array: every '
            'rise/fall/flat pattern of an n-sample real series (n<=7 quick, n<=9 thorough) is a feasible path and '
            'every clause of the property is discharged by z3 for all real values realising the pattern.'),
}
CLAIMED['C12'] = ('DESIGN.md 4/C12', 'Bounded symbolic model checking of get_zero_crossings_array_indices and '
    'get_switched_peak_array_indices: every sign/zero/order pattern of an n-sample real series (crossings n<=7, '
    'switched peaks n<=6 quick) is a feasible path; the exact-crossing set, one-maximal-peak-per-excursion, sign '
    'alternation and tolerance-subsequence clauses are decided by z3 for all real values on each path.')
CLAIMED['C08'] = ('DESIGN.md 4/C08', 'Symbolic execution of calc_velo_and_disp_from_accel_arr (both branches, with SciPy\'s real '
    'cumulative_trapezoid) and the AccSignal accessors with symbolic record AND symbolic dt: increment identities, '
    'linearity and closed forms are polynomial identities decided structurally/by z3 for n<=10 (24 thorough); '
    'calc_peak = max|x| is decided for every x in R^n, n<=12 (24), and pga/pgv/pgd are shown to be calc_peak of the '
    'respective series.')
CLAIMED['C09'] = ('DESIGN.md 4/C09', 'Symbolic execution of the seven cumulative-measure functions (SciPy quadrature executed for '
    'real) on symbolic records (and symbolic dt / alpha where polynomial): length, monotonicity, the defining '
    'quadrature, sign/scale/zero-padding laws decided for every record with n<=8 (16 thorough); CAVdp window '
    'bookkeeping with concrete dt, every gate pattern a separate path.')
CLAIMED['C10'] = ('DESIGN.md 4/C10', 'Crossing logic decided for EVERY cumulative measure (arbitrary symbolic array through the '
    'documented im= hook) and every fraction pair 0<start<end<1 (n<=7), plus symbolic records through the real '
    'sum-of-squares/Arias/CAV code for stated fraction pairs (n<=6), shift/scale relations and bracketed duration '
    'with symbolic threshold and dt; each index set returned by np.where is a separate path.')
CLAIMED['C20'] = ('DESIGN.md 4/C20', 'Symbolic execution of interp2d/interp_left (nodes, queries and table all symbolic; argmin/'
    'searchsorted/where forks enumerate every bracketing case), rolling average (all windows/modes), step-fit error '
    '(p=1,2, any sign of every mean) and the NZS 1170.5 functions with symbolic T,Z,N,R (x**0.75 encoded exactly as '
    'an algebraic root); each clause decided by z3 within the stated sizes.')
CLAIMED['C01'] = ('DESIGN.md 4/C01', 'The real Nigam-Jennings recurrence is executed on a fully symbolic record, giving every '
    'response sample as an exact linear form with the library\'s own double coefficients; each is compared with an '
    'independent 80-digit exp(M dt) propagator for ALL records (error bounded relative to sum_k peak_k*|a_k|, the '
    'well-conditioned form of the peak-relative tolerance), plus a one-step inductive query from an arbitrary '
    'reachable state, the third-series identity and the T=0 row, over a stated (T/dt, xi, dt) grid.')
CLAIMED['C02'] = ('DESIGN.md 4/C02', 'Relational obligations over pairs of symbolic executions of the real response code: '
    'linearity with symbolic alpha, beta and two symbolic records (polynomial identity), causality, shift, period '
    'order/batch independence (identical terms) and refinement invariance (all records, tolerance for the two '
    'different double propagators), n<=8, stated (T/dt, xi) grid. Spectra batching: every pseudo/true spectral entry of any batch, order or container type (int or float) equals the value computed for that period alone (identical terms).')
CLAIMED['C03'] = ('DESIGN.md 4/C03', 'Spectra shown to be absmax of the (C01) response terms by identical-term comparison, absmax = '
    'max|x| decided for every x (free arrays up to 2x12), pseudo relations with the true 2*pi, the 6*dt PGA cut incl. '
    'the boundary, container kinds, the AccSignal target-step/interpolation rule for min_dt_ratio in {1,2,4,8}, and the '
    'energy spectra as their defining sums; symbolic records n<=5, stated period/damping grid.')
CLAIMED['C13'] = ('DESIGN.md 4/C13', 'Symbolic execution of the peak-only series functions (in-place rebasing, plateau cleaning, sign '
    'normalisation; every rise/fall/flat pattern a path, n<=6) with the conservation laws and shift invariance decided '
    'by z3, and of the power-law cycle/amplitude functions with symbolic a_ref, n_cyc for b in {1, 1/2} (x**(1/b) '
    'polynomial, y**b an exact algebraic root; rational-function arithmetic), n<=4. Integer-dtype records are carried over by identical-term comparison with their float copy (b in {1, 1/2, 2}).')
CLAIMED['C14'] = ('DESIGN.md 4/C14', 'interp_array_to_approx_dt / interp_to_approx_dt executed with symbolic record, dt AND target '
    '(1/8 <= dt/target <= 8): ceil/floor of the symbolic ratio fork over every feasible integer factor, so the step '
    'rule is decided over the reals for every ratio incl. non-commensurate ones; retained samples, subsequence, range, '
    'duration and even-length clauses per path (L<=7); Fourier resampling through a model of SciPy\'s rfft/irfft '
    'branch on symbolic trigonometric polynomials.')
CLAIMED['C19'] = ('DESIGN.md 4/C19', 'calc_surface_energy / get_time_shift_motions / calc_cum_abs_surface_energy executed on symbolic '
    'records and symbolic reduction factors (SciPy cumulative_trapezoid(axis=1) for real, np.interp model for '
    'fractional delays) and compared cell by cell with an oracle written from the shifted-wave definition; shifting '
    'and joining helpers placed exactly; n<=5, stated travel-time/option/shift-vector sets.')
CLAIMED['C06'] = ('DESIGN.md 4/C06', 'gen_fa_spectrum / generate_fa_spectrum / calc_fa_spectrum executed with symbolic record AND '
    'symbolic dt through the DFT-definition stub: N selection, zero padding, bin slice, dt scaling and the frequency '
    'grid compared bin by bin with an independent DFT oracle (npts<=9, p2_plus<=2, explicit even/odd n), linearity, '
    'trailing zeros, Parseval, the Hermitian inverse (N<=16) and the dominant-bin selection (quadratic |F|^2 comparisons). Explicit option values (p2_plus=0 given explicitly, n together with p2_plus) are separate configurations.')
CLAIMED['C07'] = ('DESIGN.md 4/C07', 'calc_smooth_fa_spectrum / smoothing matrix / Signal.smooth_fa_spectrum executed on a symbolic '
    'amplitude spectrum (frequencies and bandwidth enumerated, incl. targets exactly on the Fourier grid): every smoothed '
    'value is shown for ALL amplitudes to equal the independent Konno-Ohmachi weighted mean, to lie in [min,max], to '
    'reproduce constants, scale linearly and equal the matrix form; bandwidth helpers decided on an arbitrary symbolic '
    'smoothed spectrum (every above/below-threshold pattern a path).')
CLAIMED['C15'] = ('DESIGN.md 4/C15', 'transform / transform_w_scipy_fft / itransform executed on a fully symbolic record (complex '
    'scalars as pairs of reals through the DFT stub, SciPy toeplitz for real): every time-frequency cell is an exact '
    'linear form compared with an independent S-transform oracle for ALL records (n<=9), plus row marginals, the '
    'inverse, linearity, and the dominant-frequency trace for on-grid sinusoids with symbolic amplitude pair (each '
    'argmax comparison a definite binary quadratic form, decided exactly), odd and even lengths.')
CLAIMED['C17'] = ('DESIGN.md 4/C17', 'butter_pass executed symbolically through a filtfilt contract model with the real scipy.signal.butter '
    'coefficients: length/dt, linearity on fully symbolic 40-sample records for every type/order/Gibbs/container setting, '
    'and the zero-phase squared-Butterworth gain for sinusoids with symbolic amplitude pair against an independent '
    'bilinear-transform magnitude; exact detrending laws through a rational least-squares model of polyfit, element-wise '
    'adders with their rejections, and the running average against the original-sample window mean.')
CLAIMED['C18'] = ('DESIGN.md 4/C18', 'combine_at_angle / compute_rotated on symbolic component pairs (enumerated angles, offsets, '
    'parameter names and callables): every scanned value shown to be the measure of that combination; Cluster.same_start '
    'for 2..4 signals and every master index; Cluster.time_match with symbolic master samples and fill values for every '
    'lag inside the window (each running-minimum comparison a fork, quadratic misfits decided by z3). Clusters of 3-4 signals with a different lag per non-master signal, some already in phase.')
CLAIMED['C16'] = ('DESIGN.md 4/C16', 'save_signal -> every loader entry point executed with symbolic values (inside enumerated '
    'sign/decade classes), symbolic decimal digits of dt and enumerated lengths/labels/scale factors: the real formatting '
    'code and file system run on sentinel doubles, the symbolic meaning is recovered on read-back (value tokens within half '
    'a unit of the last digit the CURRENT source writes; dt text re-evaluated positionally over symbolic digits), and z3 '
    'decides npts, dt to 4 decimals, values to 6 decimals, label and returned type.')
CLAIMED['C05'] = ('DESIGN.md 4/C05', 'Every mutator applied to an object built from (or reset to) a symbolic caller array: the caller\'s '
    'array and the object are compared element-term by element-term before/after (in-place writes on symbolic arrays are '
    'visible whatever the values), values/npts/time invariants after each operation; 40 array-level analysis functions '
    'shown to leave their symbolic inputs untouched and to repeat their result on every explored path.')
CLAIMED['C04'] = ('DESIGN.md 4/C04', 'One-step inductive check over the observational cache state: for 24 (quick) / all 128 (thorough) '
    'combinations of derived quantities read since the last change x every operation of the alphabet (17 mutators, 9 '
    'settings changes) x all 13 reads, on a symbolic 8-sample record, every read of the used object is compared term by '
    'term with a freshly constructed object holding the same values, dt and settings (identical terms, otherwise a z3 '
    'query); reads are re-read for idempotence / non-interference.')
NOT_APPLICABLE = {}
