#!/bin/bash
# Build the overlay venv used by every check: /venv's packages (numpy, scipy, the
# repo's deps) + z3-solver, cvc5, crosshair-tool, jsonschema from the offline wheelhouse.
# Idempotent; serialised with a lock so parallel checks do not race.
set -e
cd "$(dirname "$0")"
V=/verif/.venv
exec 9>/verif/.venv.lock
flock 9
if [ -x "$V/bin/python" ] && "$V/bin/python" -c "import z3, numpy, scipy, jsonschema" 2>/dev/null; then
  exit 0
fi
rm -rf "$V"
/venv/bin/python -m venv "$V"
SP=$("$V/bin/python" -c "import site; print(site.getsitepackages()[0])")
echo "import site; site.addsitedir('/venv/lib/python3.12/site-packages')" > "$SP/zz_overlay.pth"
PIP_NO_INDEX=1 "$V/bin/pip" install -q --no-index --find-links /opt/veriftools/wheels z3-solver cvc5 jsonschema >/dev/null
"$V/bin/python" -c "import z3, numpy, scipy, jsonschema; print('overlay ok', z3.get_version_string(), numpy.__version__)"
